#!/usr/bin/env python3
"""Builds each hand-written mutation as a patch and runs the expected checks against it (sensitivity self-test)."""
import json, os, shutil, subprocess, sys, tempfile
V = os.path.dirname(os.path.dirname(os.path.abspath(__file__)))
sys.path.insert(0, os.path.join(V, "selftest"))
from mutations import MUT
only = set(sys.argv[1:])
out = {}
for name, f, old, new, props in MUT:
    if only and name not in only:
        continue
    d = tempfile.mkdtemp(prefix="selfmut.", dir="/tmp")
    try:
        a = os.path.join(d, "a"); b = os.path.join(d, "b")
        os.makedirs(os.path.join(a, os.path.dirname(f))); os.makedirs(os.path.join(b, os.path.dirname(f)))
        src = open(os.path.join("/repo", f)).read()
        if src.count(old) < 1:
            print(name, "PATTERN NOT FOUND"); out[name] = "pattern-not-found"; continue
        open(os.path.join(a, f), "w").write(src)
        open(os.path.join(b, f), "w").write(src.replace(old, new, 1))
        p = subprocess.run(["diff", "-u", os.path.join("a", f), os.path.join("b", f)], cwd=d, stdout=subprocess.PIPE, text=True, errors="replace")
        patch = os.path.join(d, name + ".diff")
        open(patch, "w").write(p.stdout)
        r = subprocess.run([os.path.join(V, "tools", "mutant_eval.py"), patch, "--props", ",".join(props)], stdout=subprocess.PIPE, stderr=subprocess.STDOUT, text=True, errors="replace")
        last = r.stdout.strip().splitlines()[-1]
        try:
            s = json.loads(last)
        except Exception:
            s = {"error": r.stdout[-500:]}
        caught = s.get("caught_by", [])
        print("%-40s suite=%s expected=%s caught_by=%s %s" % (name, s.get("suite_passes"), props, caught, "" if caught else "<<< MISSED"), flush=True)
        out[name] = s
    finally:
        shutil.rmtree(d, ignore_errors=True)
json.dump(out, open(os.path.join(V, "selftest", "last_results.json"), "w"), indent=1)
