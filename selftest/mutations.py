"""Hand-written sensitivity mutations (DESIGN.md §9). Each is (name, file, old, new, properties expected to catch it)."""
ST = "processors/auditd/sessiontracker/sessiontracker.go"
SP = "processors/sshd/sshdprocessor.go"
RX = "processors/sshd/openssh_regex.go"
NP = "ingesters/namedpipe/namedpipeingester.go"
SY = "ingesters/syslog/syslogingester.go"
AL = "ingesters/auditlog/auditlogingester.go"
AD = "processors/auditd/auditd.go"
HE = "internal/health/health.go"
DR = "processors/auditd/dirreader/dirreader.go"
CM = "cmd/namedpipe.go"
MUT = [
 ("c01_match_any_unbound", ST, "if u.srcPID == rul.PID && !u.hasRUL {", "if !u.hasRUL {", ["C01"]),
 ("c01_take_waiting_by_has_any", ST, "if o.pidsToRULs.Has(srcPID) {\n\t\treturn o.pidsToRULs.WithLockedValueDo(srcPID,", "if o.pidsToRULs.Len() > 0 {\n\t\tfor _, k := range []int{srcPID, srcPID - 1, srcPID + 1} {\n\t\t\tif o.pidsToRULs.Has(k) {\n\t\t\t\tsrcPID = k\n\t\t\t\tbreak\n\t\t\t}\n\t\t}\n\t\treturn o.pidsToRULs.WithLockedValueDo(srcPID,", ["C01"]),
 ("c02_hold_queue_not_cleared", ST, "\to.cached = nil\n\n\treturn nil\n}", "\treturn nil\n}", ["C02"]),
 ("c02_flush_reverse", ST, "\tfor i := range o.cached {\n\t\terr := writer.Write(o.toAuditEvent(o.cached[i]))", "\tfor i := len(o.cached) - 1; i >= 0; i-- {\n\t\terr := writer.Write(o.toAuditEvent(o.cached[i]))", ["C02"]),
 ("c02_no_flush_on_login", ST, "\t\t\twriteErr = u.writeAndClearCache(o.eventWriter)\n\t\t\tif sessionEnded", "\t\t\tif len(u.cached) > 3 {\n\t\t\t\twriteErr = u.writeAndClearCache(o.eventWriter)\n\t\t\t}\n\t\t\tif sessionEnded", ["C02"]),
 ("c04_unset_not_skipped", ST, 'if event.Session == "" || event.Session == "unset" {', 'if event.Session == "" {', ["C04"]),
 ("c04_any_record_opens_session", ST, "if event.Type != auparse.AUDIT_LOGIN {", "if event.Type != auparse.AUDIT_LOGIN && event.Type != auparse.AUDIT_USER_START {", ["C04", "C15"]),
 ("c05_password_forward_on_write_error", SP, '\tif err := config.eventW.Write(evt); err != nil {\n\t\treturn fmt.Errorf("failed to write event: %w", err)\n\t}\n\n\tselect {\n\tcase <-config.ctx.Done():\n\t\treturn nil\n\tcase config.logins <- common.RemoteUserLogin{\n\t\tSource:     evt,\n\t\tPID:        pid,\n\t\tCredUserID: common.UnknownUser,\n\t}:\n\t\treturn nil\n\t}\n}\n\nfunc getCertificateInvalidReason', '\twerr := config.eventW.Write(evt)\n\n\tselect {\n\tcase <-config.ctx.Done():\n\t\treturn nil\n\tcase config.logins <- common.RemoteUserLogin{\n\t\tSource:     evt,\n\t\tPID:        pid,\n\t\tCredUserID: common.UnknownUser,\n\t}:\n\t}\n\tif werr != nil {\n\t\treturn fmt.Errorf("failed to write event: %w", werr)\n\t}\n\treturn nil\n}\n\nfunc getCertificateInvalidReason', ["C05"]),
 ("c05_cred_from_account", SP, "\t\tCredUserID: usernameFromCert,", "\t\tCredUserID: matches[usrIdx],", ["C05"]),
 ("c06_keyid_lazy", RX, "ID (?P<UserID>.*) \\(serial", "ID (?P<UserID>.*?) \\(serial", ["C06", "C05"]),
 ("c06_port_digits_only_rootlogin", RX, "ROOT LOGIN REFUSED FROM (?P<Source>.*) port (?P<Port>.*)$", "ROOT LOGIN REFUSED FROM (?P<Source>[0-9.]+) port (?P<Port>.*)$", ["C06"]),
 ("c07_trim_too_much", SY, 'entry = strings.TrimSuffix(entry, "\\n")', 'entry = strings.TrimRight(entry, "\\n. ")', ["C07"]),
 ("c08_swallow_ingester_error", CM, "\t\terr = alp.Ingest(groupCtx)\n", "\t\terr = alp.Ingest(groupCtx)\n\t\tif err != nil && groupCtx.Err() == nil {\n\t\t\tlogger.Errorf(\"audit ingester stopped: %v\", err)\n\t\t\terr = nil\n\t\t}\n", ["C08"]),
 ("c09_rebind_bound_session", ST, "if u.srcPID == rul.PID && !u.hasRUL {", "if u.srcPID == rul.PID {", ["C09"]),
 ("c09_no_end_on_flush", ST, "\t\t\tif sessionEnded && writeErr == nil {", "\t\t\tif sessionEnded && writeErr == nil && len(u.cached) > 100 {", ["C09"]),
 ("c11_cert_slice_plus2", SP, "certIdentifierStringStart := len(matches[0]) + 1", "certIdentifierStringStart := len(matches[0]) + 2", ["C11"]),
 ("c11_unanchored_failed_password", RX, "`^Failed password for", "`Failed password for", ["C11", "C19"]),
 ("c12_deliver_tail", NP, '\t\tline, err := r.ReadString(delim)\n\t\tif err != nil {', '\t\tline, err := r.ReadString(delim)\n\t\tif err != nil && len(line) > 0 {\n\t\t\t_ = callback(ctx, line)\n\t\t}\n\t\tif err != nil {', ["C12"]),
 ("c12_ignore_callback_error_once", NP, "\t\terr = callback(ctx, line)\n\t\tif err != nil {\n\t\t\treturn err\n\t\t}", "\t\terr = callback(ctx, line)\n\t\tif err != nil && len(line) < 4096 {\n\t\t\treturn err\n\t\t}", ["C12"]),
 ("c14_timestamp_now", ST, "\tevt.LoggedAt = ae.Timestamp\n", "\tif !ae.Timestamp.IsZero() && ae.Timestamp.Nanosecond()%7000000 != 0 {\n\t\tevt.LoggedAt = ae.Timestamp\n\t}\n", ["C14"]),
 ("c14_alias_subjects", ST, "\tsubjectsCopy := make(map[string]string, len(o.login.Source.Subjects))\n\tfor k, v := range o.login.Source.Subjects {\n\t\tsubjectsCopy[k] = v\n\t}\n", "\tsubjectsCopy := o.login.Source.Subjects\n", ["C14"]),
 ("c14_drop_single_arg", ST, "if len(ae.Process.Args) > 0 {", "if len(ae.Process.Args) > 1 {", ["C14"]),
 ("c15_continue_on_parse_error", AD, "\t\t\tif err != nil {\n\t\t\t\treturn &parseAuditLogsError{", "\t\t\tif err != nil && len(line) > 40 {\n\t\t\t\treturn &parseAuditLogsError{", ["C15"]),
 ("c16_before_to_after", ST, "if !u.hasRUL && u.added.Before(t) {", "if !u.hasRUL && u.added.After(t) {", ["C16"]),
 ("c16_ignore_hasrul", ST, "if !u.hasRUL && u.added.Before(t) {", "if u.added.Before(t) {", ["C16"]),
 ("c17_nongreedy_invalid_user", RX, "^Invalid user (?P<Username>.*) from", "^Invalid user (?P<Username>.*?) from", ["C17"]),
 ("c18_status_from_isready", HE, "\tif status[OverallReady] == ComponentReady {", "\tif o.IsReady() {", ["C18"]),
 ("c19_missing_inc_invalid_user", SP, "\t// Increment metric even if it fails to write the event\n\tconfig.metrics.IncLogins(metrics.UnknownLogin, metrics.Failure)\n\n\tevt.LoggedAt = config.when", "\tevt.LoggedAt = config.when", ["C19"]),
 ("c19_wrong_outcome_label_cert_invalid", SP, "config.metrics.IncLogins(metrics.SSHCertLogin, metrics.Failure)", "config.metrics.IncLogins(metrics.SSHCertLogin, metrics.Success)", ["C19"]),
 ("c20_no_reset_on_create_rename", DR, "\tcase fsnotify.Create, fsnotify.Remove, fsnotify.Rename:", "\tcase fsnotify.Remove:", ["C20"]),
 ("c03_unlock_between_scan_and_park", ST, "\tif debugLogger != nil {\n\t\tdebugLogger.Debugln(\"no matching audit session found\")\n\t}\n", "\tif debugLogger != nil {\n\t\tdebugLogger.Debugln(\"no matching audit session found\")\n\t}\n\n\to.mu.Unlock()\n\tif common.VerifHooks {\n\t\tcommon.VerifAfterUnlock(&o.mu)\n\t\tcommon.VerifBeforeLock(&o.mu)\n\t}\n\to.mu.Lock()\n", ["C03"]),
 ("c13_syslog_ignores_ctx", SP, "\tselect {\n\tcase <-config.ctx.Done():\n\t\treturn nil\n\tcase config.logins <- common.RemoteUserLogin{\n\t\tSource:     evt,\n\t\tPID:        pid,\n\t\tCredUserID: common.UnknownUser,\n\t}:\n\t\treturn nil\n\t}\n}\n\nfunc getCertificateInvalidReason", "\tconfig.logins <- common.RemoteUserLogin{\n\t\tSource:     evt,\n\t\tPID:        pid,\n\t\tCredUserID: common.UnknownUser,\n\t}\n\treturn nil\n}\n\nfunc getCertificateInvalidReason", ["C13", "C05"]),
 ("c10_login_forward_before_write_pubkey", SP, "\t\tif err := config.eventW.Write(evt); err != nil {\n\t\t\t// NOTE(jaosorior): Not being able to write audit events\n\t\t\t// merits us panicking here.\n\t\t\treturn fmt.Errorf(\"failed to write event: %w\", err)\n\t\t}\n\t\tselect {\n\t\tcase <-config.ctx.Done():\n\t\t\treturn nil\n\t\tcase config.logins <- common.RemoteUserLogin{\n\t\t\tSource:     evt,\n\t\t\tPID:        pid,\n\t\t\tCredUserID: common.UnknownUser,\n\t\t}:\n\t\t\treturn nil\n\t\t}\n\t}\n\n\tcertIdentifierStringStart", "\t\tselect {\n\t\tcase <-config.ctx.Done():\n\t\t\treturn nil\n\t\tcase config.logins <- common.RemoteUserLogin{\n\t\t\tSource:     evt,\n\t\t\tPID:        pid,\n\t\t\tCredUserID: common.UnknownUser,\n\t\t}:\n\t\t}\n\t\tif err := config.eventW.Write(evt); err != nil {\n\t\t\treturn fmt.Errorf(\"failed to write event: %w\", err)\n\t\t}\n\t\treturn nil\n\t}\n\n\tcertIdentifierStringStart", ["C05", "C10"]),
]
