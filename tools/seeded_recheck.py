#!/usr/bin/env python3
"""Re-runs all quick checks against every recorded seeded change (seeded/*/patch.diff) with the
current harness and updates meta.json (check_results, caught_by, first_violation, harness_commit).
  tools/seeded_recheck.py [name ...] [--jobs N]"""
import concurrent.futures, json, os, subprocess, sys, glob
V = os.path.dirname(os.path.dirname(os.path.abspath(__file__)))
only_props = sys.argv[sys.argv.index("--props") + 1] if "--props" in sys.argv else None
names = [a for a in sys.argv[1:] if not a.startswith("--") and not a.isdigit() and a != only_props]
par = int(sys.argv[sys.argv.index("--jobs") + 1]) if "--jobs" in sys.argv else 2
notes = json.load(open(os.path.join(V, "tools", "seeded_notes.json")))
commit = subprocess.run(["git", "-C", V, "rev-parse", "--short", "HEAD"], stdout=subprocess.PIPE, text=True).stdout.strip()
dirs = sorted(glob.glob(os.path.join(V, "seeded", "*", "patch.diff")))
if names:
    dirs = [d for d in dirs if os.path.basename(os.path.dirname(d)) in names]

def one(patch):
    d = os.path.dirname(patch)
    name = os.path.basename(d)
    cmd = [os.path.join(V, "tools", "mutant_eval.py"), patch, "--skip-suite", "--jobs", "5"]
    if only_props:
        cmd += ["--props", only_props]
    p = subprocess.run(cmd, stdout=subprocess.PIPE, stderr=subprocess.STDOUT, text=True, errors="replace")
    meta = json.load(open(os.path.join(d, "meta.json")))
    try:
        s = json.loads(p.stdout.strip().splitlines()[-1])
        res = dict(meta.get("check_results") or {}) if only_props else {}
        res.update(s.get("results") or {})
        fv = dict(meta.get("first_violation") or {}) if only_props else {}
        for k in (s.get("results") or {}):
            fv.pop(k, None)
        fv.update({l.split()[0]: l[:400] for l in p.stdout.splitlines() if " VIOLATION " in l})
        meta["check_results"] = res
        meta["caught_by"] = sorted(k for k, v in res.items() if v == 1)
        meta["first_violation"] = fv
        meta["checks_run"] = "tools/mutant_eval.py: every property's quick check against a scratch copy of /repo with patch.diff applied (VERIF_REPO), copy removed afterwards"
        meta["harness_commit"] = commit
    except Exception as e:
        meta["check_error"] = str(e) + p.stdout[-500:]
    meta.update(notes.get(name, {}))
    meta["breaks_property"] = meta["property"]
    json.dump(meta, open(os.path.join(d, "meta.json"), "w"), indent=1)
    return name, meta.get("caught_by"), meta["property"] in (meta.get("caught_by") or [])

with concurrent.futures.ThreadPoolExecutor(max_workers=par) as ex:
    for name, caught, ok in ex.map(one, dirs):
        print("%-8s target_caught=%-5s caught_by=%s" % (name, ok, caught), flush=True)
