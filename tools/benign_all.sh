#!/bin/bash
# run every quick check against each behaviour-preserving change delivered by the
# "benign" sub-agents (/tmp/ben/B?/_out/{P,Q,R}.diff); copies kept under selftest/benign/
for b in ${AREAS:-B1 B2 B3 B4 B5}; do
  for x in P Q R; do
    f=/tmp/ben/$b/_out/$x.diff
    if [ -f $f ]; then
      echo "=========== $b $x"
      cp $f /verif/selftest/benign/${b}_$x.diff
      python3 tools/mutant_eval.py $f --jobs 4 2>&1 | grep -v " held" | cut -c1-600
    fi
  done
done
