#!/bin/bash
# re-run, for each named seeded change, the quick check of its own property with the current harness
cd "$(dirname "$0")/.."
for n in "$@"; do echo "$n ${n%%_*}"; done | xargs -P ${PAR:-4} -L 1 sh -c 'python3 tools/seeded_recheck.py $0 --props $1 --jobs 1 2>&1 | tail -1'
