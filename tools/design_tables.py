#!/usr/bin/env python3
"""Regenerates the generated parts of DESIGN.md (between the BEGIN/END markers) from seeded/*/meta.json and evidence/."""
import os, re, subprocess
V = os.path.dirname(os.path.dirname(os.path.abspath(__file__)))
p = os.path.join(V, "DESIGN.md")
s = open(p).read()
tab = subprocess.run(["python3", os.path.join(V, "tools", "seeded_table.py")], stdout=subprocess.PIPE, text=True).stdout
def put(s, name, body):
    b, e = "<!-- BEGIN %s -->" % name, "<!-- END %s -->" % name
    if "@@%s@@" % name in s:
        return s.replace("@@%s@@" % name, b + "\n" + body + "\n" + e)
    return re.sub(re.escape(b) + r".*?" + re.escape(e), lambda m: b + "\n" + body + "\n" + e, s, flags=re.S)
s = put(s, "SEEDED_TABLE", tab.strip())
cost = os.path.join(V, "tools", "cost_tables.md")
if os.path.exists(cost):
    s = put(s, "COST_TABLE", open(cost).read().strip())
open(p, "w").write(s)
print("DESIGN.md tables regenerated")
