#!/usr/bin/env python3
"""Prints the markdown cost table for DESIGN.md §11.7 from the evidence files of the last runs
(evidence/<ID>.json for the tier that ran last) — run after `for p in $(./check --list); do ./check $p --tier T; done`."""
import json, os, sys, glob
V = os.path.dirname(os.path.dirname(os.path.abspath(__file__)))
tier = sys.argv[1] if len(sys.argv) > 1 else None
print("| property | tier | wall s | cases | distinct non-trivial | steps (procs x wall s) |")
print("|---|---|---|---|---|---|")
for f in sorted(glob.glob(os.path.join(V, "evidence", "C*.json"))):
    e = json.load(open(f))
    if tier and e["tier"] != tier:
        continue
    c = e["coverage"]
    steps = "; ".join("%s %dx%.0f" % (s["step"], s["procs"], s["wall_s"]) for s in c.get("step_runs", []))
    print("| %s | %s | %.0f | %d | %d | %s |" % (e["property_id"], e["tier"], e["wall_s"], c["evaluations"], c["distinct_nontrivial"], steps))
