#!/bin/bash
# round 5: verify sub-agent changes I and J (several at a time); OWN=1 runs only the check of the
# change's own property (time budget), otherwise all quick checks
cd "$(dirname "$0")/.."
ls /tmp/mut/*/_out/[IJ].diff 2>/dev/null | while read f; do
  p=$(basename $(dirname $(dirname $f))); x=$(basename $f .diff)
  [ -f seeded/${p}_$x/meta.json ] || echo "$p $x"
done | xargs -P ${PAR:-5} -L 1 sh -c 'if [ -n "$OWN" ]; then python3 tools/seeded_verify.py $0 $1 --props $0 2>&1 | tail -3; else python3 tools/seeded_verify.py $0 $1 2>&1 | tail -3; fi'
