#!/bin/bash
# round 5: verify sub-agent changes I and J (4 at a time) and run all quick checks against them
cd "$(dirname "$0")/.."
ls /tmp/mut/*/_out/[IJ].diff 2>/dev/null | while read f; do
  p=$(basename $(dirname $(dirname $f))); x=$(basename $f .diff)
  [ -f seeded/${p}_$x/meta.json ] || echo "$p $x"
done | xargs -P ${PAR:-4} -L 1 sh -c 'python3 tools/seeded_verify.py $0 $1 2>&1 | tail -4'
