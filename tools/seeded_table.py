#!/usr/bin/env python3
"""Prints the markdown table 'which checks catch which seeded change' from seeded/*/meta.json."""
import json, os, glob
V = os.path.dirname(os.path.dirname(os.path.abspath(__file__)))
rows = []
for m in sorted(glob.glob(os.path.join(V, "seeded", "*", "meta.json"))):
    d = json.load(open(m))
    caught = d.get("caught_by") or []
    tgt = d["property"]
    rows.append((d["name"], tgt, d.get("summary", ""), d.get("needs", ""), "yes" if tgt in caught else "NO", ", ".join(c for c in caught if c != tgt) or "-"))
print("| seeded change | property | what it does | needs to manifest | caught by its property's check (quick) | also flagged by |")
print("|---|---|---|---|---|---|")
for r in rows:
    print("| %s | %s | %s | %s | %s | %s |" % r)
