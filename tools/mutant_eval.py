#!/usr/bin/env python3
"""Evaluate the checks against a seeded change.

  tools/mutant_eval.py <patch.diff> [--props C01,C02,...] [--tier quick] [--jobs 4] [--skip-suite]

Makes a scratch copy of /repo (outside /repo and /verif), applies the patch,
confirms that the copy builds and that the repository's own suite still passes,
runs the selected checks against the copy (VERIF_REPO) and removes the copy.
Prints one line per check and a JSON summary on the last line."""
import concurrent.futures, json, os, re, shutil, subprocess, sys, tempfile, time

VERIF = os.path.dirname(os.path.dirname(os.path.abspath(__file__)))
GOENV = dict(GOFLAGS="-mod=mod", GOPROXY="off", GOSUMDB="off", GOTOOLCHAIN="local")


def main():
    args = sys.argv[1:]
    patch = os.path.abspath(args[0])
    props = None
    tier = "quick"
    jobs = 4
    skip_suite = False
    i = 1
    while i < len(args):
        if args[i] == "--props":
            props = args[i + 1].split(","); i += 2
        elif args[i] == "--tier":
            tier = args[i + 1]; i += 2
        elif args[i] == "--jobs":
            jobs = int(args[i + 1]); i += 2
        elif args[i] == "--skip-suite":
            skip_suite = True; i += 1
        else:
            raise SystemExit("unknown arg " + args[i])
    if props is None:
        props = [json.loads(l)["id"] for l in open(os.path.join(VERIF, "properties.jsonl")) if l.strip()]
    scratch = tempfile.mkdtemp(prefix="muteval.", dir="/tmp")
    repo = os.path.join(scratch, "repo")
    env = dict(os.environ); env.update(GOENV)
    summary = dict(patch=patch, tier=tier)
    try:
        subprocess.check_call(["rsync", "-a", "--exclude", ".git", "/repo/", repo + "/"])
        p = subprocess.run(["git", "apply", "--whitespace=nowarn", patch], cwd=repo, stdout=subprocess.PIPE, stderr=subprocess.STDOUT, text=True, errors="replace")
        if p.returncode != 0:
            print("PATCH DOES NOT APPLY:", p.stdout)
            summary["applies"] = False
            print(json.dumps(summary)); return 2
        summary["applies"] = True
        b = subprocess.run("go build ./... && go build -tags verif ./...", shell=True, cwd=repo, env=env, stdout=subprocess.PIPE, stderr=subprocess.STDOUT, text=True, errors="replace")
        summary["builds"] = b.returncode == 0
        if b.returncode != 0:
            print("BUILD FAILS:", b.stdout[-1500:])
            print(json.dumps(summary)); return 2
        if not skip_suite:
            t = subprocess.run(["go", "test", "-vet=off", "-count=1", "./..."], cwd=repo, env=env, stdout=subprocess.PIPE, stderr=subprocess.STDOUT, text=True, errors="replace")
            summary["suite_passes"] = t.returncode == 0
            print("suite:", "PASS" if t.returncode == 0 else "FAIL\n" + t.stdout[-1500:])
        env2 = dict(env); env2["VERIF_REPO"] = repo; env2["VERIF_NO_EVIDENCE"] = "1"

        def run(pid):
            t0 = time.time()
            r = subprocess.run([os.path.join(VERIF, "check"), pid, "--tier", tier], cwd=VERIF, env=env2, stdout=subprocess.PIPE, stderr=subprocess.PIPE, text=True, errors="replace")
            viol = [l for l in r.stdout.splitlines() if l.startswith("VIOLATION")]
            first = ""
            m = re.search(r"---- violation in step (\S+) ----\n(.*)", r.stderr)
            if m:
                first = m.group(1) + ": " + m.group(2)[:220]
            return pid, r.returncode, viol, first, time.time() - t0, r.stderr[-600:]

        res = {}
        with concurrent.futures.ThreadPoolExecutor(max_workers=jobs) as ex:
            for pid, rc, viol, first, dt, err in ex.map(run, props):
                res[pid] = rc
                tag = {0: "held", 1: "VIOLATION", 2: "inconclusive"}.get(rc, "rc=%s" % rc)
                print("%s %-12s %5.1fs %s" % (pid, tag, dt, first if rc == 1 else (err.strip().splitlines()[-1][:200] if rc == 2 and err.strip() else "")))
        summary["results"] = res
        summary["caught_by"] = sorted(k for k, v in res.items() if v == 1)
        print(json.dumps(summary))
        return 0
    finally:
        shutil.rmtree(scratch, ignore_errors=True)


if __name__ == "__main__":
    sys.exit(main())
