#!/bin/bash
# round 4: verify sub-agent changes G and H and run all quick checks against them
for p in ${PROPS:-C01 C02 C03 C04 C05 C06 C07 C08 C09 C10 C11 C12 C13 C14 C15 C16 C17 C18 C19 C20}; do
  for x in G H; do
    if [ -f /tmp/mut/$p/_out/$x.diff ] && [ ! -f /verif/seeded/${p}_$x/meta.json ]; then
      echo "=========== $p $x"
      python3 tools/seeded_verify.py $p $x 2>&1 | tail -30
    fi
  done
done
