#!/usr/bin/env python3
"""Confirm a sub-agent's seeded change and record it under /verif/seeded/<name>/.

  tools/seeded_verify.py <prop> <A|B> [--props C01,...] [--no-checks]

Reads /tmp/mut/<prop>/_out/{<X>.diff, demo_<X>/zz_demo_<X>_test.go}. In scratch
copies of /repo (removed afterwards): (1) the demonstration passes on the
unchanged tree; (2) with the change: builds, the repository's suite passes,
the demonstration fails; (3) runs the checks (tools/mutant_eval.py). Writes
patch.diff, the demonstration and meta.json."""
import json, os, re, shutil, subprocess, sys, tempfile
V = os.path.dirname(os.path.dirname(os.path.abspath(__file__)))
GOENV = dict(GOFLAGS="-mod=mod", GOPROXY="off", GOSUMDB="off", GOTOOLCHAIN="local")

def sh(cmd, cwd, timeout=1200):
    env = dict(os.environ); env.update(GOENV)
    p = subprocess.run(cmd, shell=True, cwd=cwd, env=env, stdout=subprocess.PIPE, stderr=subprocess.STDOUT, text=True, errors="replace", timeout=timeout)
    return p.returncode, p.stdout

def main():
    prop, x = sys.argv[1], sys.argv[2]
    props = None
    nochecks = "--no-checks" in sys.argv
    if "--props" in sys.argv:
        props = sys.argv[sys.argv.index("--props") + 1]
    src = "/tmp/mut/%s/_out" % prop
    patch = os.path.join(src, "%s.diff" % x)
    demodir = os.path.join(src, "demo_%s" % x)
    demos = [f for f in os.listdir(demodir) if f.endswith(".go")]
    head = open(os.path.join(demodir, demos[0])).read(600)
    m = re.search(r"copy to (\S+)", head)
    target = m.group(1).strip("<>").lstrip("./")
    m2 = re.search(r"run[^:]*:\s*(.*)", head)
    cmd = m2.group(1).strip()
    cmd = re.sub(r"^(GO\w+=\S+\s+)+", "", cmd)
    if "-timeout" not in cmd:
        cmd = cmd.replace("go test", "go test -timeout 15m", 1)
    name = "%s_%s" % (prop, x)
    meta = dict(name=name, property=prop, source="independent sub-agent given only the property text and a scratch worktree",
                patch="patch.diff", demo=demos, demo_target=target, demo_cmd=cmd)
    scratch = tempfile.mkdtemp(prefix="seedv.", dir="/tmp")
    try:
        clean = os.path.join(scratch, "clean"); mut = os.path.join(scratch, "mut")
        for d in (clean, mut):
            subprocess.check_call(["rsync", "-a", "--exclude", ".git", "/repo/", d + "/"])
            os.makedirs(os.path.dirname(os.path.join(d, target)) or d, exist_ok=True)
            shutil.copy(os.path.join(demodir, demos[0]), os.path.join(d, target))
        rc, out = sh(cmd, clean)
        meta["demo_passes_on_unchanged_tree"] = rc == 0
        if rc != 0:
            print("DEMO FAILS ON CLEAN TREE:\n" + out[-1500:])
        rc, out = sh("git apply --whitespace=nowarn %s" % patch, mut)
        meta["patch_applies"] = rc == 0
        if rc != 0:
            print("PATCH DOES NOT APPLY", out)
        rc, out = sh("go build ./... && go build -tags verif ./...", mut)
        meta["builds"] = rc == 0
        rc, out = sh(cmd, mut)
        meta["demo_fails_with_change"] = rc != 0
        meta["demo_failure_excerpt"] = "\n".join([l for l in out.splitlines() if "FAIL" in l or "Error" in l or "violat" in l.lower()][:8])[:1200]
        os.remove(os.path.join(mut, target))
        rc, out = sh("go test -vet=off -count=1 ./...", mut)
        meta["suite_passes_with_change"] = rc == 0
        if rc != 0:
            print("SUITE FAILS WITH CHANGE:\n" + out[-1200:])
    finally:
        shutil.rmtree(scratch, ignore_errors=True)
    notes = os.path.join(src, "NOTES.md")
    if os.path.exists(notes):
        meta["agent_notes_excerpt"] = open(notes).read()[:3000]
    if not nochecks:
        c = [os.path.join(V, "tools", "mutant_eval.py"), patch, "--skip-suite", "--jobs", "5"]
        if props:
            c += ["--props", props]
        p = subprocess.run(c, stdout=subprocess.PIPE, stderr=subprocess.STDOUT, text=True, errors="replace")
        print(p.stdout)
        try:
            s = json.loads(p.stdout.strip().splitlines()[-1])
            meta["checks_run"] = "tools/mutant_eval.py (quick tier, scratch copy of /repo with the patch applied via VERIF_REPO)"
            meta["check_results"] = s.get("results")
            meta["caught_by"] = s.get("caught_by")
            meta["first_violation"] = {l.split()[0]: l for l in p.stdout.splitlines() if " VIOLATION " in l}
        except Exception as e:
            meta["check_error"] = str(e)
    ok = all(meta.get(k) for k in ("demo_passes_on_unchanged_tree", "patch_applies", "builds", "demo_fails_with_change", "suite_passes_with_change"))
    meta["confirmed"] = ok
    out = os.path.join(V, "seeded", name)
    if ok:
        shutil.rmtree(out, ignore_errors=True)
        os.makedirs(out)
        shutil.copy(patch, os.path.join(out, "patch.diff"))
        for f in demos:
            shutil.copy(os.path.join(demodir, f), os.path.join(out, f))
        json.dump(meta, open(os.path.join(out, "meta.json"), "w"), indent=1)
    print("RESULT %s confirmed=%s caught_by=%s target_caught=%s" % (name, ok, meta.get("caught_by"), prop in (meta.get("caught_by") or [])))
    return 0

if __name__ == "__main__":
    sys.exit(main())
