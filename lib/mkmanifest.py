#!/usr/bin/env python3
"""Regenerates MANIFEST.json from lib/props.py (claimed checks) and the fixed
property list (everything not claimed goes to not_applicable with a reason)."""
import json, os, sys
V = os.path.dirname(os.path.dirname(os.path.abspath(__file__)))
sys.path.insert(0, os.path.join(V, "lib"))
from props import PROPS, NOT_APPLICABLE, HOOK_COMMITS

ids = [json.loads(l)["id"] for l in open(os.path.join(V, "properties.jsonl")) if l.strip()]
checks = []
for pid in ids:
    if pid not in PROPS:
        continue
    p = PROPS[pid]
    c = dict(property_id=pid,
             quick_cmd="./check %s --tier quick" % pid,
             thorough_cmd="./check %s --tier thorough" % pid,
             evidence_file="/verif/evidence/%s.json" % pid,
             replay_cmd_template="./check %s --replay {path}" % pid,
             engine="vh",
             level_claimed=dict(category=p["level"], text=p["level_text"], design_ref=p.get("design_ref", "DESIGN.md §6 " + pid)),
             level_note=p["level_note"],
             technique=p["technique"])
    checks.append(c)
na = [dict(property_id=i, reason=NOT_APPLICABLE.get(i, "check not built yet in this revision; see DESIGN.md §6 for the plan"))
      for i in ids if i not in PROPS]
m = dict(version=1,
         setup_cmd="./check --setup",
         hooks=dict(guard="verif", enable="go build/test -tags verif (the driver passes it on every build)",
                    baseline_off_cmd="cd /repo && GOFLAGS=-mod=mod GOPROXY=off GOSUMDB=off go test -vet=off -count=1 ./...",
                    source_commits=HOOK_COMMITS, add_only=True),
         engines=[dict(name="vh", path="/verif/harness", serves_properties=[c["property_id"] for c in checks],
                       kind_free_text="Go property-based test harness (pgregory.net/rapid v1.3.0, bounded enumerators, "
                                      "cooperative scheduler, native go fuzzing) compiled inside the audito-maldito module "
                                      "through -overlay/-modfile from /repo's working tree; driver ./check (python3)")],
         checks=checks,
         notes="Checks rebuild from /repo's working tree on every invocation. Exit 2 = inconclusive/infrastructure, never a violation. One step (c16.scaled) compiles /repo's current processors/auditd/auditd.go through the build overlay with the one-minute staleness constant replaced by 2 s (nothing in /repo is written; skipped when the constant's definition is not found exactly once); everything else compiles the tree unmodified with -tags verif.",
         not_applicable=na)
json.dump(m, open(os.path.join(V, "MANIFEST.json"), "w"), indent=1)
print("MANIFEST.json: %d checks, %d not claimed" % (len(checks), len(na)))
