package vh

import "testing"

// TestLangSemantics reports which loop-variable semantics the module was compiled with.
func TestLangSemantics(t *testing.T) {
	var fs []func() int
	for i := 0; i < 3; i++ {
		fs = append(fs, func() int { return i })
	}
	t.Logf("loopvar semantics: first closure sees %d (3 = shared variable, go<=1.21; 0 = per-iteration)", fs[0]())
}
