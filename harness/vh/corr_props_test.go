package vh

import (
	"fmt"
	"testing"

	"pgregory.net/rapid"
)

// classification helpers ----------------------------------------------------

type histFacts struct {
	sessionsWithEmits  int
	overlapEmitting    bool // >=2 sessions open at the same time, each with >=1 emitted event
	loginInside        bool // a login arrived with >=1 held event and >=1 later event of that session
	pendingAtLogin     int  // max number of pending (unbound) sessions when a login arrived
	uncorrelatedKinds  int
	correlated         bool
	lateLoginFlushEnd  bool // a session ended through the hold-queue flush
	cutBetweenPending  bool // a cleanup cut-off strictly between the arrivals of two pending entries
	cleanupDroppedSome bool
	reuse              bool
}

func factsOf(ct corrTrace) histFacts {
	var f histFacts
	h := ct.H
	openAt := map[int]int{}
	endAt := map[int]int{}
	for i, o := range h.Ops {
		if o.K == "open" {
			if _, ok := openAt[o.S]; !ok {
				openAt[o.S] = i
			}
		}
		if o.K == "disp" {
			endAt[o.S] = i
		}
	}
	emits := map[int]int{}
	for _, st := range ct.Steps {
		for _, e := range st.Model {
			emits[e.Ses]++
		}
	}
	var es []int
	for s, n := range emits {
		if n > 0 {
			es = append(es, s)
		}
	}
	f.sessionsWithEmits = len(es)
	f.correlated = len(es) > 0
	for a := 0; a < len(es); a++ {
		for b := a + 1; b < len(es); b++ {
			ea, ok1 := endAt[es[a]]
			eb, ok2 := endAt[es[b]]
			if !ok1 {
				ea = len(h.Ops)
			}
			if !ok2 {
				eb = len(h.Ops)
			}
			if openAt[es[a]] < eb && openAt[es[b]] < ea {
				f.overlapEmitting = true
			}
		}
	}
	// replay the model to find login-inside / pending counts / flush-end
	m := newCorrModel()
	kinds := map[string]bool{}
	pidLogins := map[int]int{}
	for i, o := range h.Ops {
		if o.K == "login" {
			pidLogins[o.P]++
			if pidLogins[o.P] > 1 {
				f.reuse = true
			}
			pending := 0
			for _, u := range m.sess {
				if !u.bound {
					pending++
				}
			}
			if pending > f.pendingAtLogin {
				f.pendingAtLogin = pending
			}
			for s, u := range m.sess {
				if u.pid == o.P && !u.bound && len(u.held) >= 1 {
					later := false
					for _, o2 := range h.Ops[i+1:] {
						if (o2.K == "ev" || o2.K == "disp") && o2.S == s {
							later = true
						}
					}
					if later {
						f.loginInside = true
					}
					for _, ev := range u.held {
						if h.Ops[ev].K == "disp" {
							f.lateLoginFlushEnd = true
						}
					}
				}
			}
		}
		if o.K == "clean" {
			no := normCut(o, i)
			older, younger := 0, 0
			for _, u := range m.sess {
				if !u.bound {
					if u.openedAt < no.Cut {
						older++
					} else {
						younger++
					}
				}
			}
			for _, w := range m.waiting {
				if w.at < no.Cut {
					older++
				} else {
					younger++
				}
			}
			if older > 0 && younger > 0 {
				f.cutBetweenPending = true
			}
			if older > 0 {
				f.cleanupDroppedSome = true
			}
		}
		if o.K == "noise" {
			kinds["noise:"+o.T] = true
		}
		if (o.K == "ev" || o.K == "disp") && !m.opened[o.S] {
			kinds["event_before_login_record"] = true
		}
		m.step(i, normCut(o, i), h.Ops)
	}
	for s, u := range m.sess {
		_ = s
		if !u.bound {
			kinds["session_without_login"] = true
		}
	}
	if len(m.waiting) > 0 {
		kinds["login_without_session"] = true
	}
	if len(m.stray) > 0 {
		kinds["event_after_disposal"] = true
	}
	f.uncorrelatedKinds = len(kinds)
	return f
}

func labelsOf(f histFacts) []string {
	var l []string
	if f.overlapEmitting {
		l = append(l, "two_emitting_sessions_open_at_once")
	}
	if f.loginInside {
		l = append(l, "login_strictly_inside_event_sequence")
	}
	if f.pendingAtLogin >= 2 {
		l = append(l, "two_or_more_sessions_pending_at_login")
	}
	if f.lateLoginFlushEnd {
		l = append(l, "session_ended_by_hold_queue_flush")
	}
	if f.cutBetweenPending {
		l = append(l, "cutoff_between_pending_arrivals")
	}
	if f.cleanupDroppedSome {
		l = append(l, "cleanup_discarded_something")
	}
	l = append(l, fmt.Sprintf("uncorrelated_kinds:%d", f.uncorrelatedKinds))
	l = append(l, fmt.Sprintf("emitting_sessions:%d", imin(f.sessionsWithEmits, 4)))
	return l
}

// one executor, property-specific oracle and non-triviality rule -------------

func corrExec(oracle func(corrTrace) error, nt func(histFacts) bool) func(history) Outcome {
	return func(h history) Outcome {
		ct := runHistoryAPI(h, nil)
		if ct.Model.ambiguous {
			return Outcome{Skip: "ambiguous_login_match"}
		}
		if err := traceErrors(ct); err != nil {
			return Outcome{Err: err}
		}
		if err := oracle(ct); err != nil {
			return Outcome{Err: err}
		}
		f := factsOf(ct)
		return Outcome{NT: nt(f), Labels: labelsOf(f)}
	}
}

func ntC01(f histFacts) bool { return f.overlapEmitting }
func ntC02(f histFacts) bool { return f.loginInside || f.pendingAtLogin >= 2 }
func ntC04(f histFacts) bool { return f.correlated && f.uncorrelatedKinds >= 2 }
func ntC09(f histFacts) bool { return f.lateLoginFlushEnd }
func ntC16(f histFacts) bool { return f.cutBetweenPending }

var (
	execC01 = corrExec(oracleC01, ntC01)
	execC02 = corrExec(oracleC02, ntC02)
	execC04 = corrExec(oracleC04, ntC04)
	execC09 = corrExec(oracleC09, ntC09)
)

func execC16(h history) Outcome {
	ctA := runHistoryAPI(h, nil)
	if ctA.Model.ambiguous {
		return Outcome{Skip: "ambiguous_login_match"}
	}
	ctB := runHistoryAPIOpt(h, nil, true)
	if err := traceErrors(ctA); err != nil {
		return Outcome{Err: err}
	}
	if err := oracleC16(ctA, ctB); err != nil {
		return Outcome{Err: err}
	}
	f := factsOf(ctA)
	return Outcome{NT: ntC16(f), Labels: labelsOf(f)}
}

func genHistC01(rt *rapid.T) history {
	return genHistory(rt, hgenOpts{MaxLen: 60, MaxSessions: 8, Orphans: true, Cleanup: "far", Strays: true})
}

func genHistC02(rt *rapid.T) history {
	cl := pick(rt, "cleanupmode", []string{"", "far", "between"})
	return genHistory(rt, hgenOpts{MaxLen: 60, MaxSessions: 6, Orphans: false, Cleanup: cl, Strays: false, HeldAfterDisp: true})
}

func genHistC04(rt *rapid.T) history {
	return genHistory(rt, hgenOpts{MaxLen: 50, MaxSessions: 5, Orphans: true, Cleanup: "far", Strays: true})
}

func genHistC16(rt *rapid.T) history {
	return genHistory(rt, hgenOpts{MaxLen: 40, MaxSessions: 5, Orphans: true, Cleanup: "between", Strays: false})
}

func TestC01_API(t *testing.T) { RunProp(t, "c01.api", genHistC01, execC01) }
func TestC02_API(t *testing.T) { RunProp(t, "c02.api", genHistC02, execC02) }
func TestC04_API(t *testing.T) { RunProp(t, "c04.api", genHistC04, execC04) }
func TestC09_API(t *testing.T) { RunProp(t, "c09.api", genReuseHistory, execC09) }
func TestC16_API(t *testing.T) { RunProp(t, "c16.api", genHistC16, execC16) }

// bounded-exhaustive drivers -------------------------------------------------

func enumDriver(t *testing.T, step string, o enumOpts, exec func(history) Outcome) {
	si, sn := shard()
	o.MaxLen = envInt("VERIF_ENUM_LEN", o.MaxLen)
	RunEnum(t, step, func(y func(history) bool) { enumHistories(o, si, sn, y) }, exec)
	addNote(step, fmt.Sprintf("all well-formed histories of length <= %d over %d sessions/pids (noise=%v cleanup=%v early/late events=%v), shard %d/%d", o.MaxLen, o.NS, o.Noise, o.Cleanup, o.Early, si, sn))
}

func TestC01_Enum(t *testing.T) {
	enumDriver(t, "c01.enum", enumOpts{NS: 2, MaxLen: 7, Cleanup: true}, execC01)
}

// three sessions/pids, shorter histories (the alphabet grows fast)
func TestC01_Enum3(t *testing.T) {
	si, sn := shard()
	o := enumOpts{NS: 3, MaxLen: envInt("VERIF_ENUM3_LEN", 6), Cleanup: true}
	RunEnum(t, "c01.enum3", func(y func(history) bool) { enumHistories(o, si, sn, y) }, execC01)
	addNote("c01.enum3", fmt.Sprintf("all well-formed histories of length <= %d over 3 sessions/pids with far-future cleanup, shard %d/%d", o.MaxLen, si, sn))
}
func TestC02_Enum(t *testing.T) {
	enumDriver(t, "c02.enum", enumOpts{NS: 2, MaxLen: 7}, execC02)
}
func TestC04_Enum(t *testing.T) {
	enumDriver(t, "c04.enum", enumOpts{NS: 2, MaxLen: 7, Noise: true, Cleanup: true, Early: true}, execC04)
}
func TestC16_Enum(t *testing.T) {
	enumDriver(t, "c16.enum", enumOpts{NS: 2, MaxLen: 7, Cleanup: true}, execC16)
}

// C09 bounded-exhaustive: alphabet {s1,s2 on pid 1} — every interleaving of
// phase-1 (records of s1 + login1) followed by every interleaving of phase 2.
func enumReuse(maxEv1, maxEv2, maxStray int, yield func(history) bool) {
	var perms func(a, b []hop, acc []hop, out *[][]hop)
	perms = func(a, b []hop, acc []hop, out *[][]hop) {
		if len(a) == 0 && len(b) == 0 {
			*out = append(*out, append([]hop{}, acc...))
			return
		}
		if len(a) > 0 {
			perms(a[1:], b, append(acc, a[0]), out)
		}
		if len(b) > 0 {
			perms(a, b[1:], append(acc, b[0]), out)
		}
	}
	for n1 := 0; n1 <= maxEv1; n1++ {
		rec1 := []hop{{K: "open", S: 1, P: 1}}
		for k := 0; k < n1; k++ {
			rec1 = append(rec1, hop{K: "ev", S: 1, T: "USER_START", P: 1})
		}
		rec1 = append(rec1, hop{K: "disp", S: 1, P: 1})
		var phase1 [][]hop
		perms(rec1, []hop{{K: "login", P: 1}}, nil, &phase1)
		for n2 := 0; n2 <= maxEv2; n2++ {
			for ns := 0; ns <= maxStray; ns++ {
				rec2 := []hop{{K: "open", S: 2, P: 1}}
				for k := 0; k < n2; k++ {
					rec2 = append(rec2, hop{K: "ev", S: 2, T: "USER_END", P: 1})
				}
				var strays []hop
				for k := 0; k < ns; k++ {
					strays = append(strays, hop{K: "ev", S: 1, T: "CRED_ACQ", P: 1})
				}
				var p2a, phase2 [][]hop
				perms(rec2, []hop{{K: "login", P: 1}}, nil, &p2a)
				for _, x := range p2a {
					perms(x, strays, nil, &phase2)
				}
				for _, a := range phase1 {
					for _, b := range phase2 {
						if !yield(history{Ops: append(append([]hop{}, a...), b...)}) {
							return
						}
					}
				}
			}
		}
	}
}

func TestC09_Enum(t *testing.T) {
	si, sn := shard()
	n := 0
	RunEnum(t, "c09.enum", func(y func(history) bool) {
		enumReuse(2, 2, 2, func(h history) bool {
			n++
			if n%sn != si {
				return true
			}
			return y(h)
		})
	}, execC09)
	addNote("c09.enum", "every interleaving of {open s1, <=2 events, disp s1} with login1, followed by every interleaving of {open s2, <=2 events} with login2 (same pid) and <=2 stray s1 events")
}

// C16 at scale: hundreds of pending halves of one kind older than the cut-off
// (a cron-heavy host, a burst of logins without sessions) — cleanup discards
// every one of them in one pass, and keeps every younger one.
type c16BulkCase struct {
	Old      int  `json:"old"`      // pending halves older than the cut-off
	Young    int  `json:"young"`    // pending halves younger than the cut-off
	Sessions bool `json:"sessions"` // true: pending sessions (LOGIN records); false: waiting logins
}

func execC16Bulk(c c16BulkCase) Outcome {
	var h history
	for i := 1; i <= c.Old; i++ {
		if c.Sessions {
			h.Ops = append(h.Ops, hop{K: "open", S: i, P: i})
		} else {
			h.Ops = append(h.Ops, hop{K: "login", P: i})
		}
	}
	cutAt := len(h.Ops)
	for i := c.Old + 1; i <= c.Old+c.Young; i++ {
		if c.Sessions {
			h.Ops = append(h.Ops, hop{K: "open", S: i, P: i})
		} else {
			h.Ops = append(h.Ops, hop{K: "login", P: i})
		}
	}
	h.Ops = append(h.Ops, hop{K: "clean", Cut: cutAt})
	for i := 1; i <= c.Old+c.Young; i++ {
		if c.Sessions {
			h.Ops = append(h.Ops, hop{K: "login", P: i})
		} else {
			h.Ops = append(h.Ops, hop{K: "open", S: i, P: i})
		}
	}
	ct := runHistoryAPI(h, nil)
	if err := traceErrors(ct); err != nil {
		return Outcome{Err: err}
	}
	per := map[int]int{}
	for _, st := range ct.Steps {
		for _, a := range st.Actual {
			if s, ok := sesNumber(a.Ses); ok {
				per[s]++
			}
		}
	}
	survivors := 0
	for i := 1; i <= c.Old; i++ {
		if per[i] > 0 {
			survivors++
		}
	}
	if survivors > 0 {
		return fail("%d of %d pending halves (sessions=%v) older than the cut-off survived the cleanup: their late second half released the held events", survivors, c.Old, c.Sessions)
	}
	for i := c.Old + 1; i <= c.Old+c.Young; i++ {
		if per[i] != 1 {
			return fail("pending half %d (sessions=%v) younger than the cut-off: %d events emitted after its second half arrived, want 1 (cleanup must keep it)", i, c.Sessions, per[i])
		}
	}
	return Outcome{NT: c.Old >= 100, Labels: []string{fmt.Sprintf("old:%d", c.Old)}}
}

func TestC16_Bulk(t *testing.T) {
	si, sn := shard()
	n := 0
	RunEnum(t, "c16.bulk", func(y func(c16BulkCase) bool) {
		for _, old := range []int{1, 50, 255, 256, 257, 400, 1000, 5000} {
			for _, young := range []int{0, 3} {
				for _, ses := range []bool{true, false} {
					n++
					if n%sn != si {
						continue
					}
					if !y(c16BulkCase{Old: old, Young: young, Sessions: ses}) {
						return
					}
				}
			}
		}
	}, execC16Bulk)
}

// C10 at the correlator API: over the C02 history family (logins at every
// position, events held after the disposal record, cleanup calls) no audit
// event is written twice. Only "written twice" is judged here.
func execC10History(h history) Outcome {
	ct := runHistoryAPI(h, nil)
	seen := map[string]int{}
	for i, st := range ct.Steps {
		for _, a := range st.Actual {
			k := fmt.Sprintf("%s|%d", a.Ses, a.Ev)
			seen[k]++
			if seen[k] > 1 {
				return fail("step %d (%s): audit event op %d of session %s was written %d times; history: %s", i, h.Ops[i], a.Ev, a.Ses, seen[k], h)
			}
		}
	}
	f := factsOf(ct)
	return Outcome{NT: f.loginInside || f.lateLoginFlushEnd, Labels: labelsOf(f)}
}

func TestC10_History(t *testing.T) { RunProp(t, "c10.history", genHistC02, execC10History) }
