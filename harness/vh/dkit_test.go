package vh

import (
	"bufio"
	"bytes"
	"encoding/json"
	"fmt"
	"os"
	"os/exec"
	"path/filepath"
	"strings"
	"sync"
	"syscall"
	"time"
)

// D-KIT — runs the built daemon (binary path in VERIF_BIN_AM / VERIF_BIN_AM_RACE)
// with two real FIFOs and a regular output file.

type daemon struct {
	dir      string
	sshdPipe string
	audPipe  string
	outPath  string
	errPath  string
	cmd      *exec.Cmd
	waitCh   chan error
	exited   bool
	exitErr  error
	started  time.Time
}

type daemonOpts struct {
	Race     bool
	SshdPath string // "" = a FIFO; "regular" | "missing" | "dir"
	AudPath  string
	Output   string // "" = regular file; "devfull"; "fifo" (the harness reads it and can close it)
	Extra    []string
}

func daemonBinary(race bool) string {
	name := "VERIF_BIN_AM"
	if race {
		name = "VERIF_BIN_AM_RACE"
	}
	p := os.Getenv(name)
	if p == "" {
		panic(&infraError{name + " not set (the driver builds the daemon)"})
	}
	return p
}

func mkPath(dir, name, kind string) string {
	p := filepath.Join(dir, name)
	switch kind {
	case "":
		if err := syscall.Mkfifo(p, 0o600); err != nil {
			panic(&infraError{err.Error()})
		}
	case "regular":
		_ = os.WriteFile(p, []byte("x\n"), 0o600)
	case "dir":
		_ = os.Mkdir(p, 0o700)
	case "missing":
	}
	return p
}

func startDaemon(o daemonOpts) *daemon {
	dir, err := os.MkdirTemp("", "vhdaemon")
	if err != nil {
		panic(&infraError{err.Error()})
	}
	d := &daemon{dir: dir, outPath: filepath.Join(dir, "events.log"), errPath: filepath.Join(dir, "stderr.log")}
	d.sshdPipe = mkPath(dir, "sshd-pipe", o.SshdPath)
	d.audPipe = mkPath(dir, "audit-pipe", o.AudPath)
	if o.Output == "devfull" {
		d.outPath = "/dev/full"
	} else if o.Output == "fifo" {
		if err := syscall.Mkfifo(d.outPath, 0o600); err != nil {
			panic(&infraError{err.Error()})
		}
	} else if err := os.WriteFile(d.outPath, nil, 0o600); err != nil {
		panic(&infraError{err.Error()})
	}
	ef, err := os.Create(d.errPath)
	if err != nil {
		panic(&infraError{err.Error()})
	}
	args := append([]string{"-sshd-pipe-path", d.sshdPipe, "-auditd-pipe-path", d.audPipe, "-app-events-output", d.outPath}, o.Extra...)
	d.cmd = exec.Command(daemonBinary(o.Race), args...)
	d.cmd.Env = append(os.Environ(), "NODE_NAME="+vhNode, "GORACE=halt_on_error=0 exitcode=0")
	d.cmd.Stdout = ef
	d.cmd.Stderr = ef
	if err := d.cmd.Start(); err != nil {
		panic(&infraError{"cannot start daemon: " + err.Error()})
	}
	ef.Close()
	d.started = time.Now()
	d.waitCh = make(chan error, 1)
	go func() { d.waitCh <- d.cmd.Wait() }()
	return d
}

// openWriter opens the write side of a FIFO; it returns once the daemon has
// opened the read side (or the daemon exited / the guard expired).
func (d *daemon) openWriter(path string) (*os.File, error) {
	type res struct {
		f   *os.File
		err error
	}
	ch := make(chan res, 1)
	go func() {
		f, err := os.OpenFile(path, os.O_WRONLY, 0)
		ch <- res{f, err}
	}()
	select {
	case r := <-ch:
		return r.f, r.err
	case err := <-d.waitCh:
		d.exited, d.exitErr = true, err
		d.waitCh <- err
		// release the blocked open
		if f, e := os.OpenFile(path, os.O_RDONLY|syscall.O_NONBLOCK, 0); e == nil {
			defer f.Close()
			<-ch
		}
		return nil, fmt.Errorf("daemon exited before opening %s", filepath.Base(path))
	case <-time.After(20 * time.Second):
		if f, e := os.OpenFile(path, os.O_RDONLY|syscall.O_NONBLOCK, 0); e == nil {
			defer f.Close()
			<-ch
		}
		return nil, fmt.Errorf("daemon did not open %s within 20s", filepath.Base(path))
	}
}

// waitExit waits up to dur for the daemon to exit: (exit code, exited?).
func (d *daemon) waitExit(dur time.Duration) (int, bool) {
	select {
	case err := <-d.waitCh:
		d.exited, d.exitErr = true, err
		d.waitCh <- err
		return d.cmd.ProcessState.ExitCode(), true
	case <-time.After(dur):
		return 0, false
	}
}

// dumpAndKill sends SIGQUIT (goroutine dump to stderr), then kills.
func (d *daemon) dumpAndKill() string {
	if d.cmd.Process != nil {
		_ = d.cmd.Process.Signal(syscall.SIGQUIT)
		if _, ok := d.waitExit(3 * time.Second); !ok {
			_ = d.cmd.Process.Kill()
			d.waitExit(3 * time.Second)
		}
	}
	b, _ := os.ReadFile(d.errPath)
	s := string(b)
	if i := strings.Index(s, "SIGQUIT"); i >= 0 {
		s = s[i:]
	}
	// keep the goroutines that matter
	var keep []string
	for _, blk := range strings.Split(s, "\n\n") {
		if strings.Contains(blk, "audito-maldito/ingesters") || strings.Contains(blk, "audito-maldito/processors") || strings.Contains(blk, "errgroup") {
			keep = append(keep, blk)
		}
	}
	out := strings.Join(keep, "\n\n")
	if len(out) > 3500 {
		out = out[:3500]
	}
	return out
}

func (d *daemon) cleanup() {
	if !d.exited && d.cmd.Process != nil {
		_ = d.cmd.Process.Kill()
		d.waitExit(5 * time.Second)
	}
	os.RemoveAll(d.dir)
}

func (d *daemon) stderrText() string {
	b, _ := os.ReadFile(d.errPath)
	return string(b)
}

// outputLines returns the complete lines of the events output.
func (d *daemon) outputLines() []string {
	b, err := os.ReadFile(d.outPath)
	if err != nil {
		return nil
	}
	var lines []string
	sc := bufio.NewScanner(bytes.NewReader(b))
	sc.Buffer(make([]byte, 1<<20), 1<<24)
	for sc.Scan() {
		lines = append(lines, sc.Text())
	}
	return lines
}

// waitForOutput polls the output until pred holds for its text.
func (d *daemon) waitForOutput(dur time.Duration, pred func(string) bool) bool {
	deadline := time.Now().Add(dur)
	for {
		b, _ := os.ReadFile(d.outPath)
		if pred(string(b)) {
			return true
		}
		if time.Now().After(deadline) {
			return false
		}
		if _, ok := d.waitExit(2 * time.Millisecond); ok {
			b, _ := os.ReadFile(d.outPath)
			return pred(string(b))
		}
	}
}

// saturate writes audit lines without pause until the pipe breaks or stop is
// closed. The lines are valid records without a session (cheap, never emitted).
func saturate(w *os.File, stop <-chan struct{}, wg *sync.WaitGroup) { saturateInj(w, stop, wg, nil, nil) }

// satWriter lets the scenario add whole lines to the stream of the saturating
// writer: it alone writes to the descriptor, so injected lines land between its
// blocks (a second writer on the pipe would be interleaved inside a block, which
// is larger than PIPE_BUF; a second user of the same *os.File starves on its write lock).
type satWriter struct {
	inj  chan []byte
	done chan struct{}
}

func (s *satWriter) Write(b []byte) (int, error) {
	c := append([]byte(nil), b...)
	select {
	case s.inj <- c:
		return len(b), nil
	case <-s.done:
		return 0, os.ErrClosed
	case <-time.After(30 * time.Second):
		panic(&infraError{"saturating writer did not take an injected line within 30s"})
	}
}

func saturateInj(w *os.File, stop <-chan struct{}, wg *sync.WaitGroup, inj <-chan []byte, done chan<- struct{}) {
	defer wg.Done()
	if done != nil {
		defer close(done)
	}
	var sb strings.Builder
	for i := 0; sb.Len() < 60000; i++ {
		fmt.Fprintf(&sb, "type=USER_ACCT msg=audit(1600000000.%03d:%d): pid=1 uid=0 auid=4294967295 ses=4294967295 msg='op=PAM:accounting grantors=pam_permit acct=\"root\" exe=\"/usr/sbin/cron\" hostname=? addr=? terminal=cron res=success'\n", i%1000, 100000+i)
	}
	block := []byte(sb.String())
	for {
		select {
		case <-stop:
			return
		case b := <-inj:
			if _, err := w.Write(b); err != nil {
				return
			}
			continue
		default:
		}
		if _, err := w.Write(block); err != nil {
			return
		}
	}
}

func jsonKeys(line string) (map[string]json.RawMessage, error) {
	var m map[string]json.RawMessage
	dec := json.NewDecoder(strings.NewReader(line))
	if err := dec.Decode(&m); err != nil {
		return nil, err
	}
	if dec.More() {
		return nil, fmt.Errorf("more than one JSON value on the line")
	}
	return m, nil
}
