package vh

import (
	"context"
	"errors"
	"fmt"
	"time"

	"github.com/metal-toolbox/auditevent"

	"github.com/metal-toolbox/audito-maldito/internal/common"
	"github.com/metal-toolbox/audito-maldito/internal/health"
	"github.com/metal-toolbox/audito-maldito/processors/auditd"
)

// readRig runs auditd.Auditd.Read with unbuffered input channels so that
// arrival order across the two channels is deterministic (barriers).
type readRig struct {
	audits  chan string
	logins  chan common.RemoteUserLogin
	rec     *Rec
	done    chan error
	cancel  context.CancelFunc
	exited  bool
	exitErr error
	dummy   int
}

func newReadRig(rec *Rec) *readRig {
	if rec == nil {
		rec = &Rec{}
	}
	r := &readRig{audits: make(chan string), logins: make(chan common.RemoteUserLogin), rec: rec, done: make(chan error, 1)}
	ctx, cancel := context.WithCancel(context.Background())
	r.cancel = cancel
	a := auditd.Auditd{Audits: r.audits, Logins: r.logins, EventW: newWriter(rec), Health: health.NewHealth()}
	go func() { r.done <- a.Read(ctx) }()
	return r
}

var errReadExited = errors.New("Read exited")

const rigGuard = 20 * time.Second

// line sends one audit log line; it is accepted only after every earlier line
// has been fully processed (parse, reassembly callbacks, correlator).
func (r *readRig) line(l string) error {
	if r.exited {
		return errReadExited
	}
	select {
	case r.audits <- l:
		return nil
	case err := <-r.done:
		r.exited, r.exitErr = true, err
		return errReadExited
	case <-time.After(rigGuard):
		panic(&infraError{"audit line not accepted within guard time"})
	}
}

// auditBarrier returns once every line sent so far has been fully processed.
func (r *readRig) auditBarrier() error { return r.line("") }

func (r *readRig) login(l common.RemoteUserLogin) error {
	if r.exited {
		return errReadExited
	}
	select {
	case r.logins <- l:
		return nil
	case err := <-r.done:
		r.exited, r.exitErr = true, err
		return errReadExited
	case <-time.After(rigGuard):
		panic(&infraError{"login not accepted within guard time"})
	}
}

// loginBarrier returns once every login sent so far has been fully processed:
// a dummy login for a never-used PID is accepted only when the Read loop is
// back in its select.
func (r *readRig) loginBarrier() error {
	r.dummy++
	ev := auditevent.NewAuditEvent(common.ActionLoginIdentifier, auditevent.EventSource{Type: "IP", Value: "barrier"},
		auditevent.OutcomeSucceeded, map[string]string{"loggedAs": "barrier"}, "sshd")
	return r.login(common.RemoteUserLogin{Source: ev, PID: 1<<30 + r.dummy, CredUserID: "barrier"})
}

// waitExit waits for Read to return (after an expected failure).
func (r *readRig) waitExit(d time.Duration) (error, bool) {
	if r.exited {
		return r.exitErr, true
	}
	select {
	case err := <-r.done:
		r.exited, r.exitErr = true, err
		return err, true
	case <-time.After(d):
		return nil, false
	}
}

func (r *readRig) stop() {
	r.cancel()
	if !r.exited {
		select {
		case err := <-r.done:
			r.exited, r.exitErr = true, err
		case <-time.After(rigGuard):
			panic(&infraError{"Read did not return after cancel"})
		}
	}
}

// runHistoryRead drives Auditd.Read with the text rendering of the history.
// Per-step attribution of emissions is exact thanks to the barriers.
func runHistoryRead(h history, rec *Rec) (corrTrace, []audEvent) {
	if rec == nil {
		rec = &Rec{}
	}
	rig := newReadRig(rec)
	defer rig.stop()
	m := newCorrModel()
	ct := corrTrace{H: h, Logins: map[int]string{}, LoginRaw: map[int]*auditevent.AuditEvent{}, LoginPtr: map[int]*auditevent.AuditEvent{}, Model: m}
	var aes []audEvent
	seen := 0
	for i, o := range h.Ops {
		var err error
		switch o.K {
		case "login":
			l := loginFor(i, o)
			ct.Logins[i] = identityKey(l.Source)
			ct.LoginRaw[i] = deepCopyEvent(l.Source)
			ct.LoginPtr[i] = l.Source
			if err = rig.login(l); err == nil {
				err = rig.loginBarrier()
			}
		case "open", "ev", "disp", "noise":
			ae := audEventForOp(i, o)
			if _, xerr := expectedRendering(ae); xerr != nil {
				panic(&infraError{"generated audit event does not coalesce: " + xerr.Error() + ": " + ae.Lines[0]})
			}
			aes = append(aes, ae)
			for _, l := range ae.Lines {
				if err = rig.line(l); err != nil {
					break
				}
			}
			if err == nil {
				err = rig.auditBarrier()
			}
		case "clean":
			// no cleanup entry point at this level (the ticker is real time)
		}
		if err != nil {
			err = fmt.Errorf("%w: %v", err, rig.exitErr)
		}
		all := rec.Events()
		st := stepTrace{Actual: decodeEmits(all[seen:]), Model: m.step(i, normCut(o, i), h.Ops), Err: err}
		seen = len(all)
		ct.Steps = append(ct.Steps, st)
		if err != nil {
			break
		}
	}
	return ct, aes
}

// retryFlaky re-executes a failing schedule-dependent case: a failure is
// reported only if the same case fails on each of 3 attempts (§4).
func retryFlaky[C any](step string, exec func(C) Outcome) func(C) Outcome {
	return func(c C) Outcome {
		o := exec(c)
		if o.Err == nil {
			return o
		}
		for i := 0; i < 2; i++ {
			o2 := exec(c)
			if o2.Err == nil {
				addExtra(step, "failure_not_reproduced_on_retry", 1)
				return o2
			}
			o = o2
		}
		return o
	}
}
