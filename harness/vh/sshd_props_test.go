package vh

import (
	"context"
	"encoding/json"
	"errors"
	"fmt"
	"os"
	"sort"
	"strconv"
	"strings"
	"sync"
	"sync/atomic"
	"testing"
	"time"

	"github.com/metal-toolbox/auditevent"
	"github.com/prometheus/client_golang/prometheus"
	dto "github.com/prometheus/client_model/go"
	"go.uber.org/zap"
	"pgregory.net/rapid"

	"github.com/metal-toolbox/audito-maldito/ingesters/namedpipe"
	"github.com/metal-toolbox/audito-maldito/ingesters/syslog"
	"github.com/metal-toolbox/audito-maldito/internal/common"
	"github.com/metal-toolbox/audito-maldito/internal/health"
	"github.com/metal-toolbox/audito-maldito/internal/metrics"
	"github.com/metal-toolbox/audito-maldito/processors/sshd"
)

func imin(a, b int) int {
	if a < b {
		return a
	}
	return b
}

// sshdRig is one processor instance wired to a recording encoder, a private
// metrics registry and a logins channel.
type sshdRig struct {
	rec    *Rec
	reg    *prometheus.Registry
	logins chan common.RemoteUserLogin
	proc   sshd.SshdProcessor
}

func newSshdRig(loginsCap int) *sshdRig { return newSshdRigCtx(context.Background(), loginsCap) }

func newSshdRigCtx(ctx context.Context, loginsCap int) *sshdRig {
	r := &sshdRig{rec: &Rec{}, reg: prometheus.NewRegistry()}
	r.logins = make(chan common.RemoteUserLogin, loginsCap)
	mp := metrics.NewPrometheusMetricsProviderForRegisterer(r.reg)
	r.proc = sshd.NewSshdProcessor(ctx, r.logins, vhNode, vhMachineID, newWriter(r.rec), mp)
	return r
}

func (r *sshdRig) drain() []common.RemoteUserLogin {
	var out []common.RemoteUserLogin
	for {
		select {
		case l := <-r.logins:
			out = append(out, l)
		default:
			return out
		}
	}
}

// loginCounters returns remote_logins_total samples as "method/outcome" -> value.
func (r *sshdRig) loginCounters() map[string]float64 {
	out := map[string]float64{}
	mfs, err := r.reg.Gather()
	if err != nil {
		panic(&infraError{"gather: " + err.Error()})
	}
	for _, mf := range mfs {
		if !strings.HasSuffix(mf.GetName(), "remote_logins_total") {
			continue
		}
		for _, m := range mf.GetMetric() {
			out[labelKey(m)] = m.GetCounter().GetValue()
		}
	}
	return out
}

func labelKey(m *dto.Metric) string {
	method, outcome := "", ""
	for _, lp := range m.GetLabel() {
		switch lp.GetName() {
		case "method":
			method = lp.GetValue()
		case "outcome":
			outcome = lp.GetValue()
		}
	}
	return method + "/" + outcome
}

// semanticKeys are the leaf fields the properties speak about (C06, C11).
var semanticKeys = map[string]bool{"loggedAs": true, "value": true, "port": true, "Alg": true, "SSHKeySum": true, "userID": true,
	"Serial": true, "CA": true, "shell": true, "dns": true, "filePath": true, "keyType": true, "fingerprint": true, "reason": true, "pid": true}

var placeholderValues = map[string]bool{"unknown": true, "root": true, "unknown reason": true, "certificate invalid": true, "IP": true, "": true}

// checkWant: expected leaves ⊆ flattened event; extra leaves must be
// placeholders or verbatim substrings of the message / the PID token.
func checkWant(ev *auditevent.AuditEvent, want map[string]string, msg, pid string) error {
	flat := flatten(ev)
	keys := make([]string, 0, len(want))
	for k := range want {
		keys = append(keys, k)
	}
	sort.Strings(keys)
	for _, k := range keys {
		vs, ok := flat[k]
		if !ok {
			return fmt.Errorf("event has no field %q (want %q); event=%s", k, want[k], evJSON(ev))
		}
		found := false
		for _, v := range vs {
			if v == want[k] {
				found = true
			}
		}
		if !found {
			return fmt.Errorf("field %q = %q, want %q; event=%s", k, vs, want[k], evJSON(ev))
		}
	}
	for k, vs := range flat {
		if _, ok := want[k]; ok || !semanticKeys[k] {
			// only the fields the property names are judged; an additional
			// informational field (schema version, ...) is not a violation
			continue
		}
		for _, v := range vs {
			if placeholderValues[v] || v == pid || strings.Contains(msg, v) {
				continue
			}
			return fmt.Errorf("unexpected extra field %q = %q (not in the message); event=%s", k, v, evJSON(ev))
		}
	}
	return nil
}

func evJSON(ev *auditevent.AuditEvent) string {
	b, _ := json.Marshal(ev)
	return string(b)
}

// ---------------------------------------------------------------------------
// C06 — each supported message yields one UserLogin with exactly its fields.

// deliver hands (pid, msg) to the processor either directly or framed as the
// daemon receives it ("<pid> <msg>\n" through the syslog ingester).
func deliver(rig *sshdRig, pid, msg string, framed bool) error {
	if framed {
		sli := syslog.NewSyslogIngester("", rig.proc, namedpipe.NamedPipeIngester{})
		return sli.Process(context.Background(), pid+" "+msg+"\n")
	}
	return rig.proc.ProcessSshdLogEntry(context.Background(), sshd.SshdLogEntry{PID: pid, Message: msg})
}

// framedVariant: every second case (by content hash) goes through the ingester.
func framedVariant(msg string) bool { return hash64([]byte(msg))%2 == 0 }

func execC06(m sshdMsg) Outcome {
	rig := newSshdRig(4)
	before := time.Now()
	framed := framedVariant(m.Msg)
	err := deliver(rig, m.PID, m.Msg, framed)
	after := time.Now()
	if err != nil {
		return fail("processing returned error %v for %q", err, m.Msg)
	}
	evs := rig.rec.Events()
	if len(evs) != 1 {
		return fail("form %s: %d events emitted, want exactly 1, for %q", m.Form, len(evs), m.Msg)
	}
	ev := evs[0].Ev
	if err := checkWant(ev, m.Want, m.Msg, m.PID); err != nil {
		return fail("form %s msg %q: %v", m.Form, m.Msg, err)
	}
	if ev.LoggedAt.Before(before.Add(-time.Millisecond)) || ev.LoggedAt.After(after.Add(time.Millisecond)) {
		return fail("loggedAt %v not within processing window [%v, %v]", ev.LoggedAt, before, after)
	}
	labels := append([]string{"form:" + m.Form, fmt.Sprintf("through_ingester:%v", framed)}, m.Feat...)
	return Outcome{NT: len(m.Feat) > 0, Labels: labels}
}

func TestC06_Forms(t *testing.T) { RunProp(t, "c06.forms", genSshdMsg, execC06) }

// ---------------------------------------------------------------------------
// C05 — accepted logins reach the correlator exactly once, after the write.

type c05Case struct {
	M     sshdMsg   `json:"m"`
	Junk  *junkLine `json:"junk,omitempty"` // if set, an unrecognised line is used instead of M
	Fault string    `json:"fault"`          // none | encoder_error | cancel_blocked | cancelled_before
}

func genC05(rt *rapid.T) c05Case {
	c := c05Case{Fault: "none"}
	k := rapid.IntRange(0, 9).Draw(rt, "k")
	switch {
	case k <= 5:
		c.M = genSshdMsgForm(rt, pick(rt, "form", acceptedForms))
		// PID tokens: canonical plus other positive decimal spellings
		switch rapid.IntRange(0, 7).Draw(rt, "pidk") {
		case 0:
			c.M.PID = "+" + c.M.PID
		case 1:
			c.M.PID = "00" + c.M.PID
		}
		c.M.Want["pid"] = c.M.PID
		c.Fault = pick(rt, "fault", []string{"none", "none", "none", "encoder_error", "cancel_blocked", "cancelled_before"})
	case k <= 7:
		c.M = genSshdMsg(rt)
		if c.M.Accepted {
			c.M = genSshdMsgForm(rt, "failed_password")
		}
		if rapid.IntRange(0, 2).Draw(rt, "hostile") == 0 {
			// a failure line whose client-chosen name is hostile
			h := genHostile(rt)
			c.M = sshdMsg{Form: "hostile:" + h.Form, PID: h.PID, Msg: h.Message()}
		}
		c.Fault = pick(rt, "fault", []string{"none", "none", "encoder_error"})
	default:
		j := genJunk(rt)
		c.Junk = &j
	}
	return c
}

func execC05(c c05Case) Outcome {
	rec := &Rec{}
	called := make(chan struct{})
	var calledOnce sync.Once
	rec.Hook = func() { calledOnce.Do(func() { close(called) }) }
	if c.Fault == "encoder_error" {
		rec.FailAll = true
	}
	logins := make(chan common.RemoteUserLogin) // unbuffered, as in cmd/namedpipe.go
	mp := metrics.NewPrometheusMetricsProviderForRegisterer(prometheus.NewRegistry())
	ctx, cancel := context.WithCancel(context.Background())
	defer cancel()
	proc := sshd.NewSshdProcessor(ctx, logins, vhNode, vhMachineID, newWriter(rec), mp)

	pid, msg := c.M.PID, c.M.Msg
	if c.Junk != nil {
		pid, msg = c.Junk.PID, string(c.Junk.Msg)
	}

	type rcv struct {
		l            common.RemoteUserLogin
		tick         int64
		encodeCalled bool
	}
	var mu sync.Mutex
	var got []rcv
	stopRecv := make(chan struct{})
	recvDone := make(chan struct{})
	if c.Fault == "cancelled_before" {
		// shutdown race: the line was read from the pipe, then the worker's context
		// was cancelled before the line is processed. Cancellation only waives the
		// hand-off; the event is written all the same.
		cancel()
		close(recvDone)
		ret := proc.ProcessSshdLogEntry(ctx, sshd.SshdLogEntry{PID: pid, Message: msg})
		if ret != nil {
			return fail("accepted line %q under an already cancelled context: returned %v, want nil", msg, ret)
		}
		if rec.Len() != 1 {
			return fail("accepted line %q under an already cancelled context: %d events written, want 1 (cancellation waives only the hand-off)", msg, rec.Len())
		}
		select {
		case l := <-logins:
			return fail("already cancelled context, nobody receiving: a login (pid %d) was forwarded", l.PID)
		default:
		}
		return Outcome{NT: true, Labels: []string{"fault:cancelled_before", "form:" + c.M.Form}}
	}
	if c.Fault != "cancel_blocked" {
		go func() {
			defer close(recvDone)
			// The receiver (the "correlator") becomes ready only once the event
			// write was attempted, or after a grace period: a hand-off attempted
			// before the write is then observed with encodeCalled == false.
			select {
			case <-called:
			case <-time.After(300 * time.Millisecond):
			case <-stopRecv:
			}
			for {
				select {
				case l := <-logins:
					mu.Lock()
					got = append(got, rcv{l: l, tick: nextTick(), encodeCalled: rec.Calls() > 0})
					mu.Unlock()
				case <-stopRecv:
					return
				}
			}
		}()
	} else {
		close(recvDone)
	}

	done := make(chan error, 1)
	go func() {
		done <- proc.ProcessSshdLogEntry(ctx, sshd.SshdLogEntry{PID: pid, Message: msg})
	}()

	var ret error
	labels := []string{"fault:" + c.Fault}
	if c.Fault == "cancel_blocked" {
		select {
		case <-called:
		case ret = <-done:
			return fail("accepted line %q: processing returned (%v) without attempting the hand-off while nobody receives", msg, ret)
		case <-time.After(10 * time.Second):
			return fail("accepted line %q: no event write attempted within 10s", msg)
		}
		time.Sleep(200 * time.Microsecond) // let it reach the blocked send
		cancel()
		select {
		case ret = <-done:
		case <-time.After(5 * time.Second):
			return fail("cancel while the hand-off is blocked: processing did not return within 5s")
		}
		if ret != nil {
			return fail("cancel while the hand-off is blocked: returned %v, want nil", ret)
		}
		select {
		case l := <-logins:
			return fail("cancel while blocked: a login (pid %d) was still forwarded after return", l.PID)
		default:
		}
		if rec.Len() != 1 {
			return fail("cancel while blocked: %d events written, want 1", rec.Len())
		}
		return Outcome{NT: true, Labels: append(labels, "form:"+c.M.Form)}
	}

	select {
	case ret = <-done:
	case <-time.After(10 * time.Second):
		close(stopRecv)
		return fail("processing of %q did not return within 10s with a ready receiver", msg)
	}
	close(stopRecv)
	<-recvDone
	mu.Lock()
	defer mu.Unlock()
	evs := rec.Events()

	for _, g := range got {
		if !g.encodeCalled {
			return fail("a login (pid %d) was handed to the correlator before any event write was attempted (line %q)", g.l.PID, msg)
		}
	}

	if c.Junk != nil && strings.HasPrefix(msg, "Accepted") {
		// a mutation can leave (or make) an accepted line well-formed: the rule
		// is then "a login only together with a succeeded event"
		if len(got) > 1 || (len(got) == 1 && (len(evs) != 1 || evs[0].Ev.Outcome != auditevent.OutcomeSucceeded)) {
			return fail("line %q: %d logins forwarded with %d events", msg, len(got), len(evs))
		}
		return Outcome{Labels: append(labels, "junk_accepted_prefix")}
	}
	if c.Junk != nil || !c.M.Accepted {
		if len(got) != 0 {
			return fail("line %q is not an accepted authentication but %d login(s) were forwarded", msg, len(got))
		}
		if c.Junk != nil {
			labels = append(labels, "junk:"+c.Junk.Kind)
		} else {
			labels = append(labels, "form:"+c.M.Form)
			// (whether a failure line yields an event at all is C06/C17's concern: the
			// write error must be returned only if a write was attempted)
			if c.Fault == "encoder_error" && rec.Calls() > 0 {
				if ret == nil || !errors.Is(ret, errInjected) {
					return fail("event write failed but processing returned %v (want the write error)", ret)
				}
			}
		}
		return Outcome{NT: c.Fault != "none", Labels: labels}
	}

	labels = append(labels, "form:"+c.M.Form)
	if c.Fault == "encoder_error" {
		if ret == nil || !errors.Is(ret, errInjected) {
			return fail("event write failed but processing returned %v (want the write error)", ret)
		}
		if len(got) != 0 {
			return fail("event write failed but %d login(s) were forwarded", len(got))
		}
		return Outcome{NT: true, Labels: labels}
	}
	if ret != nil {
		return fail("accepted line %q: returned error %v", msg, ret)
	}
	if len(evs) != 1 || evs[0].Ev.Outcome != auditevent.OutcomeSucceeded {
		return fail("accepted line %q: %d events (want exactly one succeeded UserLogin)", msg, len(evs))
	}
	if len(got) != 1 {
		return fail("accepted line %q: %d logins forwarded, want exactly 1", msg, len(got))
	}
	g := got[0]
	if g.tick < evs[0].Tick {
		return fail("login received (tick %d) before the event was written (tick %d)", g.tick, evs[0].Tick)
	}
	wantPID, _ := strconv.Atoi(pid)
	if g.l.PID != wantPID {
		return fail("forwarded login PID %d, want %d (token %q)", g.l.PID, wantPID, pid)
	}
	wantCred := "unknown"
	if c.M.HasCert {
		wantCred = c.M.KeyID
	}
	if g.l.CredUserID != wantCred {
		return fail("forwarded login CredUserID %q, want %q (line %q)", g.l.CredUserID, wantCred, msg)
	}
	if g.l.Source != evs[0].Ptr {
		return fail("forwarded login identity is not the very event that was written (different object)")
	}
	if identityKey(g.l.Source) != identityKey(evs[0].Ev) || evJSON(g.l.Source) != evJSON(evs[0].Ev) {
		return fail("forwarded login identity differs from the written event: %s vs %s", evJSON(g.l.Source), evJSON(evs[0].Ev))
	}
	nt := strings.Contains(c.M.KeyID, " ")
	return Outcome{NT: nt, Labels: labels}
}

func TestC05_Handoff(t *testing.T) { RunProp(t, "c05.handoff", genC05, execC05) }

// ---------------------------------------------------------------------------
// C11 — unrecognised or malformed lines produce nothing and never crash.

type c11Case struct {
	J      junkLine `json:"j"`
	Framed bool     `json:"framed"` // through SyslogIngester.Process("<pid> <msg>\n")
}

func genC11(rt *rapid.T) c11Case {
	return c11Case{J: genJunk(rt), Framed: rapid.IntRange(0, 3).Draw(rt, "framed") == 0}
}

func sanitizeJSON(s string) string {
	b, err := json.Marshal(s)
	if err != nil {
		return s
	}
	var out string
	if json.Unmarshal(b, &out) != nil {
		return s
	}
	return out
}

// sanitizedSubstring reports whether v is what encoding/json makes of some byte
// substring of line: values that travelled through json.Marshal (the data
// blob) have every invalid UTF-8 byte replaced by U+FFFD, and a byte-offset
// slice may cut a multi-byte rune.
func sanitizedSubstring(line, v string) bool {
	lb := []byte(line)
	vr := []rune(v)
	var match func(li, vi int) bool
	match = func(li, vi int) bool {
		if vi == len(vr) {
			return true
		}
		if li >= len(lb) {
			return false
		}
		if vr[vi] == '\uFFFD' {
			if lb[li] >= 0x80 && match(li+1, vi+1) {
				return true
			}
			if li+3 <= len(lb) && string(lb[li:li+3]) == "\uFFFD" && match(li+3, vi+1) {
				return true
			}
			return false
		}
		enc := string(vr[vi])
		if li+len(enc) <= len(lb) && string(lb[li:li+len(enc)]) == enc {
			return match(li+len(enc), vi+1)
		}
		return false
	}
	for i := 0; i <= len(lb); i++ {
		if match(i, 0) {
			return true
		}
	}
	return false
}

func execC11Line(pid, msg string, framed bool) Outcome {
	rig := newSshdRig(8)
	var err error
	line := msg
	if framed {
		sli := syslog.NewSyslogIngester("", rig.proc, namedpipe.NamedPipeIngester{})
		line = pid + " " + msg + "\n"
		err = sli.Process(context.Background(), line)
	} else {
		err = rig.proc.ProcessSshdLogEntry(context.Background(), sshd.SshdLogEntry{PID: pid, Message: msg})
	}
	if err != nil {
		return fail("returned error %v for pid %q line %q", err, pid, msg)
	}
	evs := rig.rec.Events()
	logins := rig.drain()
	if len(evs) > 1 {
		return fail("%d events for one line %q", len(evs), msg)
	}
	if len(logins) > 1 {
		return fail("%d logins for one line %q", len(logins), msg)
	}
	if len(logins) == 1 && (len(evs) != 1 || evs[0].Ev.Outcome != auditevent.OutcomeSucceeded) {
		return fail("a login was forwarded without a succeeded event for line %q", msg)
	}
	labels := []string{}
	// the line as presented to the sshd processor: for a framed record the part
	// after the PID token and its padding
	kw := startsWithKeyword(msg)
	if framed {
		labels = append(labels, "framed")
		kw = startsWithKeyword(strings.TrimLeft(msg, " "))
	}
	if len(evs) == 1 {
		labels = append(labels, "event_emitted")
		if !kw {
			return fail("event emitted for a line that does not begin with a recognised keyword: %q (framed=%v)", msg, framed)
		}
		src := line
		sane := sanitizeJSON(src)
		for k, vs := range flatten(evs[0].Ev) {
			if !semanticKeys[k] {
				continue // only fields extracted from the line are judged
			}
			for _, v := range vs {
				if placeholderValues[v] || v == pid || strings.Contains(src, v) || strings.Contains(sane, v) || sanitizedSubstring(src, v) {
					continue
				}
				return fail("field %q = %q is neither a substring of the line nor a placeholder; line %q", k, v, src)
			}
		}
	}
	return Outcome{NT: kw, Labels: labels}
}

func execC11(c c11Case) Outcome {
	msg := string(c.J.Msg)
	framed := c.Framed
	if framed && (strings.ContainsAny(c.J.PID, " \n") || strings.Contains(msg, "\n")) {
		// a framed record cannot contain the record delimiter, and the PID token
		// of a framed line cannot contain a space by construction of the framing
		framed = false
	}
	o := execC11Line(c.J.PID, msg, framed)
	o.Labels = append(o.Labels, "kind:"+c.J.Kind)
	return o
}

func TestC11_Junk(t *testing.T) { RunProp(t, "c11.junk", genC11, execC11) }

// FuzzC11 is the native coverage-guided target (thorough tier).
func FuzzC11(f *testing.F) {
	for _, s := range hostileConstants {
		f.Add("123", s)
	}
	for _, s := range repoSampleLines {
		f.Add("4242", s)
	}
	for _, p := range hostilePIDs {
		f.Add(p, "Accepted password for a from b port 1 ssh2")
	}
	f.Fuzz(func(t *testing.T, pid, msg string) {
		c := c11Case{J: junkLine{PID: pid, Msg: []byte(msg), Kind: "fuzz"}}
		o := safeExec(execC11, c)
		if o.Err != nil {
			writeFail("c11.junk", c, o.Err)
			t.Fatalf("step=c11.junk: %v", o.Err)
		}
	})
}

var repoSampleLines = []string{
	"Accepted publickey for auditomalditotesting from 127.0.0.1 port 50482 ssh2: ED25519-CERT SHA256:YI+caZKJCNaXgsD0NvRZ2fLaEeF46cEVyadru/SL76o ID foo@bar.com (serial 0) CA ED25519 SHA256:Pcs5TWfcOSKb7Rw/XyvHfUcaQzmw6HtLrjUoyXuzIj8",
	"Accepted publickey for core from 127.0.0.1 port 50482 ssh2: ED25519 SHA256:YI+caZKJCNaXgsD0NvRZ2fLaEeF46cEVyadru/SL76o",
	"Accepted password for auditomalditotesting from 127.0.0.1 port 45082 ssh2",
	"Failed password for auditomalditotesting from 127.0.0.1 port 45082 ssh2",
	"Certificate invalid: name is not a listed principal",
	"Invalid user bad from 127.0.0.1 port 56734",
	"User root from 127.0.0.1 not allowed because not listed in AllowUsers",
	"User x not allowed because shell /bin/foo does not exist",
	"ROOT LOGIN REFUSED FROM 1.2.3.4 port 22",
	"Authentication refused for x: bad owner or modes for /home/x/.ssh",
	"Nasty PTR record \"a.b\" is set up for 1.2.3.4, ignoring",
	"reverse mapping checking getaddrinfo for a.b [1.2.3.4] failed.",
	"Address 1.2.3.4 maps to a.b, but this does not map back to the address.",
	"maximum authentication attempts exceeded for x from 1.2.3.4 port 22 ssh2",
	"Authentication key RSA SHA256:abc revoked by file /etc/ssh/revoked",
	"Error checking authentication key RSA SHA256:abc in revoked keys file /etc/ssh/revoked",
}

// ---------------------------------------------------------------------------
// C17 — client-chosen text cannot forge or suppress the record of a failed login.

func execC17(h hostileCase) Outcome {
	rig := newSshdRig(4)
	msg := h.Message()
	framed := framedVariant(msg)
	err := deliver(rig, h.PID, msg, framed)
	if err != nil {
		return fail("returned error %v for %q", err, msg)
	}
	evs := rig.rec.Events()
	if len(evs) != 1 {
		return fail("form %s: %d events for %q (the attempt must be recorded exactly once)", h.Form, len(evs), msg)
	}
	ev := evs[0].Ev
	if ev.Outcome != auditevent.OutcomeFailed {
		return fail("outcome %q for %q", ev.Outcome, msg)
	}
	port := fmt.Sprint(ev.Source.Extra["port"])
	if ev.Source.Value != h.Addr || port != h.Port {
		return fail("form %s: recorded source %q port %q, genuine peer is %q port %q; line %q", h.Form, ev.Source.Value, port, h.Addr, h.Port, msg)
	}
	if n := len(rig.drain()); n != 0 {
		return fail("a failed attempt forwarded %d login(s)", n)
	}
	labels := []string{"form:" + h.Form, fmt.Sprintf("through_ingester:%v", framed)}
	nt := false
	if strings.ContainsAny(h.Name, " \t") {
		nt = true
		labels = append(labels, "name_has_whitespace")
	}
	for _, w := range []string{" from ", " port ", " ssh"} {
		if strings.Contains(h.Name, w) {
			nt = true
			labels = append(labels, "name_contains:"+strings.TrimSpace(w))
		}
	}
	if h.Name == "" {
		labels = append(labels, "empty_name")
	}
	return Outcome{NT: nt, Labels: labels}
}

func TestC17_Hostile(t *testing.T) { RunProp(t, "c17.hostile", genHostile, execC17) }

func FuzzC17(f *testing.F) {
	for _, n := range []string{"x", "a b", "x from 6.6.6.6 port 1", "", " ", "x from 6.6.6.6 port 1 ssh2"} {
		for i := range hostileForms {
			f.Add(n, uint8(i), "9.9.9.9", uint16(5555))
		}
	}
	f.Fuzz(func(t *testing.T, name string, form uint8, addr string, port uint16) {
		if len(name) > 100 || strings.ContainsAny(name, "\n\r") {
			t.Skip()
		}
		for _, r := range name {
			if r < 0x20 || r == 0x7f || r == '\uFFFD' {
				t.Skip()
			}
		}
		// the peer address is what sshd's ssh_remote_ipaddr() prints: a numeric
		// IPv4/IPv6 address, possibly with a zone id
		okAddr := addr != "" && len(addr) <= 60
		for _, r := range addr {
			if !(r >= '0' && r <= '9' || r >= 'a' && r <= 'z' || r >= 'A' && r <= 'Z' || r == ':' || r == '.' || r == '%' || r == '-' || r == '_') {
				okAddr = false
			}
		}
		if !okAddr {
			addr = "9.9.9.9"
		}
		h := hostileCase{Form: hostileForms[int(form)%len(hostileForms)], Name: name, Addr: addr, Port: strconv.Itoa(int(port)), PID: "77"}
		o := safeExec(execC17, h)
		if o.Err != nil {
			writeFail("c17.hostile", h, o.Err)
			t.Fatalf("step=c17.hostile: %v", o.Err)
		}
	})
}

// ---------------------------------------------------------------------------
// C19 — every emitted UserLogin is counted once, under the matching outcome.

type c19Case struct {
	M      *sshdMsg  `json:"m,omitempty"`
	Junk   *junkLine `json:"junk,omitempty"`
	Cancel bool      `json:"cancel,omitempty"` // nobody receives the login and the context is cancelled once the event is written (shutdown)
}

func genC19(rt *rapid.T) c19Case {
	if rapid.IntRange(0, 2).Draw(rt, "k") == 0 {
		j := genJunk(rt)
		return c19Case{Junk: &j}
	}
	m := genSshdMsg(rt)
	return c19Case{M: &m, Cancel: m.Accepted && rapid.IntRange(0, 3).Draw(rt, "cancel") == 0}
}

func execC19(c c19Case) Outcome {
	rig := newSshdRig(4)
	var pid, msg string
	if c.M != nil {
		pid, msg = c.M.PID, c.M.Msg
	} else {
		pid, msg = c.Junk.PID, string(c.Junk.Msg)
	}
	var err error
	var panicked bool
	var before map[string]float64
	if c.Cancel {
		// the event is written, the hand-off finds no receiver, then the worker's
		// context is cancelled: the event was emitted, so it must have been counted
		ctx, cancel := context.WithCancel(context.Background())
		rig = newSshdRigCtx(ctx, 0)
		before = rig.loginCounters()
		returned := make(chan struct{})
		go func() {
			deadline := time.Now().Add(300 * time.Millisecond)
			for rig.rec.Len() == 0 && time.Now().Before(deadline) {
				select {
				case <-returned:
					cancel()
					return
				case <-time.After(200 * time.Microsecond):
				}
			}
			cancel()
		}()
		func() {
			defer close(returned)
			defer func() {
				if r := recover(); r != nil {
					panicked = true
				}
			}()
			err = rig.proc.ProcessSshdLogEntry(ctx, sshd.SshdLogEntry{PID: pid, Message: msg})
		}()
		cancel()
	} else {
		before = rig.loginCounters()
		err, panicked = processNoPanic(rig, pid, msg)
	}
	if panicked {
		return Outcome{Skip: "panic_in_code_under_test_(C11's_concern)"}
	}
	if err != nil {
		return Outcome{Skip: "processing_error_(C11's_concern)"}
	}
	after := rig.loginCounters()
	delta := map[string]float64{}
	total := 0.0
	for k, v := range after {
		if d := v - before[k]; d != 0 {
			delta[k] = d
			total += d
		}
	}
	evs := rig.rec.Events()
	labels := []string{}
	if c.M != nil {
		labels = append(labels, "form:"+c.M.Form)
	} else {
		labels = append(labels, "junk:"+c.Junk.Kind)
	}
	if c.Cancel {
		labels = append(labels, "cancelled_while_handing_over")
	}
	if len(evs) == 0 {
		if !startsWithKeyword(msg) && total != 0 {
			return fail("line %q does not begin with a recognised keyword but changed counters %v", msg, delta)
		}
		// (whether a well-formed message must produce an event is C06's concern)
		return Outcome{NT: false, Labels: append(labels, "no_event")}
	}
	if len(evs) != 1 {
		return fail("%d events for one line", len(evs))
	}
	ev := evs[0].Ev
	labels = append(labels, "event_emitted")
	if total != 1 || len(delta) != 1 {
		return fail("event emitted for %q but counter deltas are %v (want exactly one increment in total)", msg, delta)
	}
	var key string
	for k := range delta {
		key = k
	}
	parts := strings.SplitN(key, "/", 2)
	method, outcome := parts[0], parts[1]
	wantOutcome := "failure"
	if ev.Outcome == auditevent.OutcomeSucceeded {
		wantOutcome = "success"
	}
	if outcome != wantOutcome {
		return fail("event outcome %q counted under outcome label %q (line %q)", ev.Outcome, outcome, msg)
	}
	if c.M != nil && c.M.Accepted {
		switch c.M.Method {
		case "password":
			if method != "password" {
				return fail("password login counted under method %q", method)
			}
		case "pubkey":
			if method != "ssh-key" && method != "ssh-cert" {
				return fail("public-key login counted under method %q", method)
			}
		}
	}
	return Outcome{NT: true, Labels: labels}
}

func processNoPanic(rig *sshdRig, pid, msg string) (err error, panicked bool) {
	defer func() {
		if r := recover(); r != nil {
			panicked = true
		}
	}()
	return rig.proc.ProcessSshdLogEntry(context.Background(), sshd.SshdLogEntry{PID: pid, Message: msg}), false
}

func TestC19_Metrics(t *testing.T) { RunProp(t, "c19.metrics", genC19, execC19) }

// ---------------------------------------------------------------------------
// C07 (sshd half) — a framed record is processed as if handed over directly.

type c07Case struct {
	M   sshdMsg `json:"m"`
	Pad int     `json:"pad"` // spaces between PID and message (1..3)
}

func genC07(rt *rapid.T) c07Case {
	return c07Case{M: genSshdMsg(rt), Pad: rapid.IntRange(1, 3).Draw(rt, "pad")}
}

type sshdResult struct {
	Err    string
	Events []string // canonical JSON without loggedAt/auditId
	Logins []string
}

func canonEvent(ev *auditevent.AuditEvent) string {
	c := deepCopyEvent(ev)
	c.LoggedAt = time.Time{}
	c.Metadata.AuditID = ""
	return evJSON(c)
}

func collectSshd(rig *sshdRig, err error) sshdResult {
	r := sshdResult{}
	if err != nil {
		r.Err = err.Error()
	}
	for _, e := range rig.rec.Events() {
		r.Events = append(r.Events, canonEvent(e.Ev))
	}
	for _, l := range rig.drain() {
		r.Logins = append(r.Logins, fmt.Sprintf("pid=%d cred=%q src=%s", l.PID, l.CredUserID, canonEvent(l.Source)))
	}
	return r
}

func (a sshdResult) diff(b sshdResult) string {
	ja, _ := json.Marshal(a)
	jb, _ := json.Marshal(b)
	if string(ja) == string(jb) {
		return ""
	}
	return fmt.Sprintf("direct=%s\nframed=%s", ja, jb)
}

func execC07(c c07Case) Outcome {
	d := newSshdRig(4)
	derr := d.proc.ProcessSshdLogEntry(context.Background(), sshd.SshdLogEntry{PID: c.M.PID, Message: c.M.Msg})
	direct := collectSshd(d, derr)

	f := newSshdRig(4)
	sli := syslog.NewSyslogIngester("", f.proc, namedpipe.NamedPipeIngester{})
	line := c.M.PID + strings.Repeat(" ", c.Pad) + c.M.Msg + "\n"
	ferr := sli.Process(context.Background(), line)
	framed := collectSshd(f, ferr)

	if df := direct.diff(framed); df != "" {
		return fail("form %s: framed delivery differs from direct hand-over for line %q:\n%s", c.M.Form, line, df)
	}
	labels := []string{"form:" + c.M.Form, fmt.Sprintf("pad:%d", c.Pad)}
	if len(direct.Events) != 1 {
		// whether the direct path is right is C06's concern; here only the two paths are compared
		labels = append(labels, "direct_path_without_event")
	}
	if strings.Contains(c.M.Msg, "  ") {
		labels = append(labels, "internal_double_space")
	}
	endAnchored := !c.M.Accepted && c.M.Form != "invalid_user"
	return Outcome{NT: endAnchored, Labels: labels}
}

func TestC07_SshdFramed(t *testing.T) { RunProp(t, "c07.sshd_framed", genC07, execC07) }

// ---------------------------------------------------------------------------
// C07 (real FIFO level) — several records through SyslogIngester.Ingest on a
// real named pipe, with a generated partition into writes.

type c07FifoCase struct {
	Msgs    []sshdMsg `json:"msgs"`
	Pads    []int     `json:"pads"`
	Chunks  []int     `json:"chunks"`
	PauseAt int       `json:"pause_at"` // index of the write after which the writer pauses (-1 none)
	PauseMs int       `json:"pause_ms"`
}

func genC07Fifo(rt *rapid.T) c07FifoCase {
	n := rapid.IntRange(1, 6).Draw(rt, "n")
	c := c07FifoCase{}
	total := 0
	for i := 0; i < n; i++ {
		m := genSshdMsg(rt)
		c.Msgs = append(c.Msgs, m)
		p := rapid.IntRange(1, 3).Draw(rt, "pad")
		c.Pads = append(c.Pads, p)
		total += len(m.PID) + p + len(m.Msg) + 1
	}
	left := total
	c.PauseAt = -1
	max := pick(rt, "maxchunk", []int{1, 5, 64, 700, 1 << 16})
	if rapid.IntRange(0, 399).Draw(rt, "longpause") == 257 { // (rapid favours small values: an interior value keeps this rare)
		// a writer that stalls in the middle of a record for longer than any polling interval
		max = 40
		c.PauseMs = pick(rt, "pausems", []int{1100, 2100})
	}
	for left > 0 {
		k := rapid.IntRange(1, max).Draw(rt, "chunk")
		if k > left {
			k = left
		}
		c.Chunks = append(c.Chunks, k)
		left -= k
		if len(c.Chunks) > 4000 {
			c.Chunks = append(c.Chunks, left)
			break
		}
	}
	if c.PauseMs > 0 && len(c.Chunks) > 1 {
		c.PauseAt = rapid.IntRange(0, len(c.Chunks)-2).Draw(rt, "pauseat")
	}
	return c
}

func execC07Fifo(c c07FifoCase) Outcome {
	// direct path
	d := newSshdRig(64)
	for _, m := range c.Msgs {
		if err := d.proc.ProcessSshdLogEntry(context.Background(), sshd.SshdLogEntry{PID: m.PID, Message: m.Msg}); err != nil {
			return fail("direct path error: %v", err)
		}
	}
	direct := collectSshd(d, nil)
	// framed through a real FIFO
	dir, path, err := mkfifoDir()
	if err != nil {
		panic(&infraError{err.Error()})
	}
	defer os.RemoveAll(dir)
	f := newSshdRig(64)
	ctx, cancel := context.WithCancel(context.Background())
	defer cancel()
	counted := &countingProc{inner: f.proc}
	sli := syslog.NewSyslogIngester(path, counted, namedpipe.NewNamedPipeIngester(zap.NewNop().Sugar(), health.NewHealth()))
	done := make(chan error, 1)
	go func() { done <- sli.Ingest(ctx) }()
	var stream []byte
	for i, m := range c.Msgs {
		stream = append(stream, []byte(m.PID+strings.Repeat(" ", c.Pads[i])+m.Msg+"\n")...)
	}
	w, err := os.OpenFile(path, os.O_WRONLY, 0)
	if err != nil {
		panic(&infraError{err.Error()})
	}
	off := 0
	for ci, k := range c.Chunks {
		if off+k > len(stream) {
			k = len(stream) - off
		}
		if k <= 0 {
			break
		}
		if _, err := w.Write(stream[off : off+k]); err != nil {
			break
		}
		off += k
		if ci == c.PauseAt && c.PauseMs > 0 {
			time.Sleep(time.Duration(c.PauseMs) * time.Millisecond)
		}
	}
	if off < len(stream) {
		_, _ = w.Write(stream[off:])
	}
	w.Close()
	// completion: every record was handed to the processor (or the ingester
	// returned). How end-of-stream is reported is C12's concern, not judged here.
	deadline := time.Now().Add(20 * time.Second)
	for atomic.LoadInt64(&counted.n) < int64(len(c.Msgs)) && time.Now().Before(deadline) {
		select {
		case <-done:
			deadline = time.Now()
		case <-time.After(200 * time.Microsecond):
		}
	}
	cancel()
	if n := atomic.LoadInt64(&counted.n); n != int64(len(c.Msgs)) {
		return fail("%d records written to the pipe, %d handed to the sshd processor", len(c.Msgs), n)
	}
	framed := collectSshd(f, nil)
	if df := direct.diff(framed); df != "" {
		return fail("records delivered through the FIFO differ from direct hand-over:\n%s", df)
	}
	nt := false
	for _, m := range c.Msgs {
		if !m.Accepted && m.Form != "invalid_user" {
			nt = true
		}
	}
	return Outcome{NT: nt, Labels: []string{fmt.Sprintf("records:%d", len(c.Msgs))}}
}

// countingProc counts the records handed to the sshd processor.
type countingProc struct {
	inner sshd.SshdProcessor
	n     int64
}

func (p *countingProc) ProcessSshdLogEntry(ctx context.Context, sm sshd.SshdLogEntry) error {
	err := p.inner.ProcessSshdLogEntry(ctx, sm)
	atomic.AddInt64(&p.n, 1)
	return err
}

func TestC07_Fifo(t *testing.T) { RunProp(t, "c07.fifo", genC07Fifo, execC07Fifo) }


// ---------------------------------------------------------------------------
// C10 (processor level) — for all hand-off orders the UserLogin is written
// before the login can reach the correlator. Only the order is judged here.

func execC10Handoff(m sshdMsg) Outcome {
	rec := &Rec{}
	called := make(chan struct{})
	var once sync.Once
	rec.Hook = func() { once.Do(func() { close(called) }) }
	logins := make(chan common.RemoteUserLogin)
	mp := metrics.NewPrometheusMetricsProviderForRegisterer(prometheus.NewRegistry())
	ctx, cancel := context.WithCancel(context.Background())
	defer cancel()
	proc := sshd.NewSshdProcessor(ctx, logins, vhNode, vhMachineID, newWriter(rec), mp)
	done := make(chan error, 1)
	go func() { done <- proc.ProcessSshdLogEntry(ctx, sshd.SshdLogEntry{PID: m.PID, Message: m.Msg}) }()
	// the correlator becomes ready only after the write was attempted (or a grace period)
	select {
	case <-called:
	case <-time.After(300 * time.Millisecond):
	case <-done:
		// (whether an accepted line forwards a login at all is C05's concern)
		return Outcome{Skip: "no_hand_off_attempted"}
	}
	select {
	case l := <-logins:
		if rec.Len() == 0 {
			return fail("the login of pid %d reached the correlator before its UserLogin event was written (line %q): a UserAction carrying its identity can precede the UserLogin in the output", l.PID, m.Msg)
		}
	case <-done:
		return Outcome{Skip: "no_hand_off_attempted"}
	case <-time.After(10 * time.Second):
		return Outcome{Skip: "no_hand_off_within_10s"}
	}
	select {
	case <-done:
	case <-time.After(10 * time.Second):
		return Outcome{Skip: "processing_did_not_return_(C13's_concern)"}
	}
	return Outcome{NT: true, Labels: []string{"form:" + m.Form}}
}

func TestC10_Handoff(t *testing.T) {
	RunProp(t, "c10.handoff", func(rt *rapid.T) sshdMsg { return genSshdMsgForm(rt, pick(rt, "form", acceptedForms)) }, execC10Handoff)
}

// FuzzC06 drives the C06 property with rapid's generators fed from the native
// coverage-guided fuzzer's byte stream (thorough tier).
func FuzzC06(f *testing.F) {
	f.Add([]byte{0})
	f.Add([]byte("seed corpus: any bytes; rapid decodes them into a structured message"))
	f.Fuzz(rapid.MakeFuzz(func(rt *rapid.T) {
		m := genSshdMsg(rt)
		o := safeExec(execC06, m)
		if o.Err != nil {
			writeFail("c06.forms", m, o.Err)
			rt.Fatalf("step=c06.forms: %v", o.Err)
		}
	}))
}


// C19 over histories: several lines through ONE processor and ONE registry
// (the daemon's metrics provider lives as long as the process).
type c19SeqCase struct {
	Lines []c19Case `json:"lines"`
}

func execC19Seq(c c19SeqCase) Outcome {
	rig := newSshdRig(64)
	forms := map[string]bool{}
	for i, ln := range c.Lines {
		var pid, msg string
		if ln.M != nil {
			pid, msg = ln.M.PID, ln.M.Msg
		} else {
			pid, msg = ln.Junk.PID, string(ln.Junk.Msg)
		}
		before := rig.loginCounters()
		nev := rig.rec.Len()
		if err, panicked := processNoPanic(rig, pid, msg); err != nil || panicked {
			return Outcome{Skip: "panic_or_error_in_code_under_test_(C11's_concern)"}
		}
		after := rig.loginCounters()
		delta := map[string]float64{}
		total := 0.0
		for k, v := range after {
			if d := v - before[k]; d != 0 {
				delta[k] = d
				total += d
			}
		}
		evs := rig.rec.Events()[nev:]
		if len(evs) == 0 {
			if !startsWithKeyword(msg) && total != 0 {
				return fail("line %d %q does not begin with a recognised keyword but changed counters %v", i, msg, delta)
			}
			continue
		}
		if len(evs) != 1 {
			return fail("line %d: %d events", i, len(evs))
		}
		if total != 1 || len(delta) != 1 {
			return fail("line %d of the history (%q): event emitted but counter deltas are %v (want exactly one increment)", i, msg, delta)
		}
		var key string
		for k := range delta {
			key = k
		}
		parts := strings.SplitN(key, "/", 2)
		wantOutcome := "failure"
		if evs[0].Ev.Outcome == auditevent.OutcomeSucceeded {
			wantOutcome = "success"
		}
		if parts[1] != wantOutcome {
			return fail("line %d of the history (%q): event outcome %q counted under label %q; earlier lines: %d", i, msg, evs[0].Ev.Outcome, key, i)
		}
		if ln.M != nil && ln.M.Accepted {
			if ln.M.Method == "password" && parts[0] != "password" {
				return fail("line %d: password login counted under method %q", i, parts[0])
			}
			if ln.M.Method == "pubkey" && parts[0] != "ssh-key" && parts[0] != "ssh-cert" {
				return fail("line %d: public-key login (%q) counted under method %q", i, msg, parts[0])
			}
		}
		if ln.M != nil {
			forms[ln.M.Form] = true
		}
	}
	return Outcome{NT: len(forms) >= 3, Labels: []string{fmt.Sprintf("forms:%d", imin(len(forms), 6))}}
}

func TestC19_History(t *testing.T) {
	RunProp(t, "c19.history", func(rt *rapid.T) c19SeqCase {
		n := rapid.IntRange(2, 12).Draw(rt, "n")
		c := c19SeqCase{}
		for i := 0; i < n; i++ {
			ln := genC19(rt)
			// sshd logs several lines per connection: lines of a history share few PIDs
			if ln.M != nil && rapid.IntRange(0, 3).Draw(rt, "samepid") > 0 {
				pid := pick(rt, "hpid", []string{"4242", "4243"})
				ln.M.PID = pid
				if ln.M.Want != nil {
					ln.M.Want["pid"] = pid
				}
			}
			c.Lines = append(c.Lines, ln)
		}
		// typical connection: "Invalid user x" followed by "Failed password for invalid user x"
		if rapid.IntRange(0, 2).Draw(rt, "conn") == 0 {
			h := genHostile(rt)
			h.Form, h.PID = "invalid_user", "5151"
			m1 := sshdMsg{Form: "invalid_user", PID: h.PID, Msg: h.Message()}
			h.Form = "failed_password_invalid"
			m2 := sshdMsg{Form: "failed_password", PID: h.PID, Msg: h.Message()}
			c.Lines = append(c.Lines, c19Case{M: &m1}, c19Case{M: &m2})
		}
		return c
	}, execC19Seq)
}

// C07 with a slow correlator: the forwarded logins of a framed record equal
// those of the direct hand-over also when the login consumer is busy for
// seconds (longer than any timeout an implementation might put on a record).
type c07SlowCase struct {
	M       sshdMsg `json:"m"`
	DelayMs int     `json:"delay_ms"`
}

func execC07Slow(c c07SlowCase) Outcome {
	run := func(framed bool) sshdResult {
		rec := &Rec{}
		logins := make(chan common.RemoteUserLogin) // unbuffered, as in the daemon
		mp := metrics.NewPrometheusMetricsProviderForRegisterer(prometheus.NewRegistry())
		ctx, cancel := context.WithCancel(context.Background())
		defer cancel()
		proc := sshd.NewSshdProcessor(ctx, logins, vhNode, vhMachineID, newWriter(rec), mp)
		done := make(chan error, 1)
		go func() {
			if framed {
				sli := syslog.NewSyslogIngester("", proc, namedpipe.NamedPipeIngester{})
				done <- sli.Process(ctx, c.M.PID+" "+c.M.Msg+"\n")
			} else {
				done <- proc.ProcessSshdLogEntry(ctx, sshd.SshdLogEntry{PID: c.M.PID, Message: c.M.Msg})
			}
		}()
		r := sshdResult{}
		// the correlator is busy for a while before it takes the login
		time.Sleep(time.Duration(c.DelayMs) * time.Millisecond)
		select {
		case l := <-logins:
			r.Logins = append(r.Logins, fmt.Sprintf("pid=%d cred=%q src=%s", l.PID, l.CredUserID, canonEvent(l.Source)))
		case err := <-done:
			done <- err
		case <-time.After(3 * time.Second):
		}
		select {
		case err := <-done:
			if err != nil {
				r.Err = err.Error()
			}
		case <-time.After(10 * time.Second):
			r.Err = "processing did not return"
		}
		for _, e := range rec.Events() {
			r.Events = append(r.Events, canonEvent(e.Ev))
		}
		return r
	}
	var direct, framed sshdResult
	var wg sync.WaitGroup
	wg.Add(2)
	go func() { defer wg.Done(); direct = run(false) }()
	go func() { defer wg.Done(); framed = run(true) }()
	wg.Wait()
	if df := direct.diff(framed); df != "" {
		return fail("form %s with a login consumer busy for %d ms: framed delivery differs from direct hand-over:\n%s", c.M.Form, c.DelayMs, df)
	}
	return Outcome{NT: true, Labels: []string{fmt.Sprintf("delay_ms:%d", c.DelayMs)}}
}

func TestC07_SlowConsumer(t *testing.T) {
	delays := []int{1200, 2500}
	if thorough() {
		delays = []int{1200, 2500, 5600}
	}
	si, sn := shard()
	n := 0
	RunEnum(t, "c07.slow_consumer", func(y func(c07SlowCase) bool) {
		for _, d := range delays {
			for _, msg := range []string{
				"Accepted password for slow from 10.1.1.1 port 22 ssh2",
				"Accepted publickey for slow from fe80::1%eth0 port 22 ssh2: ED25519-CERT SHA256:YI+caZKJCNaXgsD0NvRZ2fLaEeF46cEVyadru/SL76o ID a b (serial 7) CA ED25519 SHA256:Pcs5TWfcOSKb7Rw/XyvHfUcaQzmw6HtLrjUoyXuzIj8",
			} {
				n++
				if n%sn != si {
					continue
				}
				if !y(c07SlowCase{M: sshdMsg{Form: "accepted", PID: "4242", Msg: msg, Accepted: true}, DelayMs: d}) {
					return
				}
			}
		}
	}, execC07Slow)
}


// C06 over histories: sshd legitimately prints identical lines (one "Failed
// password" per wrong password of a connection); every one of them yields its event.
type c06SeqCase struct {
	Msgs []sshdMsg `json:"msgs"`
}

func execC06Seq(c c06SeqCase) Outcome {
	rig := newSshdRig(64)
	framed := len(c.Msgs)%2 == 0
	repeats := 0
	for i, m := range c.Msgs {
		before := rig.rec.Len()
		if err := deliver(rig, m.PID, m.Msg, framed); err != nil {
			return fail("message %d returned error %v", i, err)
		}
		evs := rig.rec.Events()[before:]
		if len(evs) != 1 {
			return fail("message %d of the history (form %s, pid %s) produced %d events, want exactly 1; line %q; earlier lines of the same processor: %d", i, m.Form, m.PID, len(evs), m.Msg, i)
		}
		if err := checkWant(evs[0].Ev, m.Want, m.Msg, m.PID); err != nil {
			return fail("message %d of the history (form %s): %v", i, m.Form, err)
		}
		if i > 0 && c.Msgs[i-1].Msg == m.Msg && c.Msgs[i-1].PID == m.PID {
			repeats++
		}
	}
	rig.drain()
	return Outcome{NT: repeats > 0, Labels: []string{fmt.Sprintf("identical_consecutive_lines:%d", imin(repeats, 3))}}
}

func TestC06_History(t *testing.T) {
	RunProp(t, "c06.history", func(rt *rapid.T) c06SeqCase {
		n := rapid.IntRange(2, 8).Draw(rt, "n")
		c := c06SeqCase{}
		for len(c.Msgs) < n {
			m := genSshdMsg(rt)
			if rapid.IntRange(0, 2).Draw(rt, "samepid") > 0 {
				m.PID = pick(rt, "hpid", []string{"4242", "4243"})
				m.Want["pid"] = m.PID
			}
			c.Msgs = append(c.Msgs, m)
			// the same line again (same connection, same pid), possibly several times
			for rapid.IntRange(0, 2).Draw(rt, "again") == 1 && len(c.Msgs) < n {
				c.Msgs = append(c.Msgs, m)
			}
		}
		return c
	}, execC06Seq)
}

// C10 over histories: accepted logins through ONE processor, PIDs recur (sshd
// children reuse PIDs); each login's UserLogin is written before its hand-off.
type c10SeqCase struct {
	Msgs []sshdMsg `json:"msgs"`
}

func execC10HandoffSeq(c c10SeqCase) Outcome {
	rec := &Rec{}
	attempts := make(chan struct{}, 64)
	rec.Hook = func() {
		select {
		case attempts <- struct{}{}:
		default:
		}
	}
	logins := make(chan common.RemoteUserLogin)
	mp := metrics.NewPrometheusMetricsProviderForRegisterer(prometheus.NewRegistry())
	ctx, cancel := context.WithCancel(context.Background())
	defer cancel()
	proc := sshd.NewSshdProcessor(ctx, logins, vhNode, vhMachineID, newWriter(rec), mp)
	for i, m := range c.Msgs {
		before := rec.Len()
		done := make(chan error, 1)
		go func() { done <- proc.ProcessSshdLogEntry(ctx, sshd.SshdLogEntry{PID: m.PID, Message: m.Msg}) }()
		select {
		case <-attempts:
		case <-time.After(300 * time.Millisecond):
		case <-done:
			return Outcome{Skip: "no_hand_off_attempted"}
		}
		select {
		case l := <-logins:
			if rec.Len() == before {
				return fail("login %d of the history (pid %d, line %q) reached the correlator although its UserLogin event was not written (%d earlier logins went through this processor)", i, l.PID, m.Msg, i)
			}
		case <-done:
			return Outcome{Skip: "no_hand_off_attempted"}
		case <-time.After(10 * time.Second):
			return Outcome{Skip: "no_hand_off_within_10s"}
		}
		select {
		case <-done:
		case <-time.After(10 * time.Second):
			return Outcome{Skip: "processing_did_not_return_(C13's_concern)"}
		}
	}
	return Outcome{NT: true, Labels: []string{fmt.Sprintf("logins:%d", len(c.Msgs))}}
}

func TestC10_HandoffHistory(t *testing.T) {
	RunProp(t, "c10.handoff_history", func(rt *rapid.T) c10SeqCase {
		n := rapid.IntRange(2, 6).Draw(rt, "n")
		c := c10SeqCase{}
		for i := 0; i < n; i++ {
			m := genSshdMsgForm(rt, pick(rt, "form", acceptedForms))
			m.PID = pick(rt, "pid", []string{"4242", "4243", "5151"})
			c.Msgs = append(c.Msgs, m)
		}
		return c
	}, execC10HandoffSeq)
}
