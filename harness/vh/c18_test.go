package vh

import (
	"context"
	"encoding/json"
	"fmt"
	"net/http"
	"net/http/httptest"
	"sort"
	"testing"
	"time"

	"pgregory.net/rapid"

	"github.com/metal-toolbox/audito-maldito/internal/health"
)

// C18 — readiness is reported only when every registered component is ready.

type hOp struct {
	K string `json:"k"` // add | ready
	C string `json:"c"`
}

type c18Case struct {
	Ops []hOp `json:"ops"`
}

var compNames = []string{"named-pipe-processor", "auditd-processor", "a", "b"}

func genHOps(rt *rapid.T, max int) []hOp {
	n := rapid.IntRange(0, max).Draw(rt, "n")
	ops := make([]hOp, n)
	for i := range ops {
		ops[i] = hOp{K: pick(rt, "k", []string{"add", "ready", "ready"}), C: pick(rt, "c", compNames)}
	}
	return ops
}

func applyHOp(h *health.Health, o hOp) {
	if o.K == "add" {
		h.AddReadiness(o.C)
	} else {
		h.OnReady(o.C)
	}
}

// modelAfter returns the model states after 0..len(ops) operations. A state
// maps a registered component to its readiness. A ready-mark of a component
// that is not registered does not register it for the purpose of "every
// registered component" — but it may be listed; see modelOK.
func modelStates(ops []hOp) []map[string]bool {
	cur := map[string]bool{}
	states := []map[string]bool{copyState(cur)}
	for _, o := range ops {
		if o.K == "add" {
			cur[o.C] = false
		} else {
			cur[o.C] = true
		}
		states = append(states, copyState(cur))
	}
	return states
}

func copyState(m map[string]bool) map[string]bool {
	c := make(map[string]bool, len(m))
	for k, v := range m {
		c[k] = v
	}
	return c
}

func stateReady(m map[string]bool) bool {
	for _, v := range m {
		if !v {
			return false
		}
	}
	return true
}

type readyzResp struct {
	Code int
	Body map[string]string
}

func doReadyz(h *health.Health) (readyzResp, error) {
	rr := httptest.NewRecorder()
	req := httptest.NewRequest(http.MethodGet, "/readyz", nil)
	h.ReadyzHandler().ServeHTTP(rr, req)
	var body map[string]string
	if err := json.Unmarshal(rr.Body.Bytes(), &body); err != nil {
		return readyzResp{Code: rr.Code}, fmt.Errorf("body is not a JSON object of strings: %q", rr.Body.String())
	}
	return readyzResp{Code: rr.Code, Body: body}, nil
}

// checkResp checks a response against one model state; returns "" if it matches.
func checkResp(r readyzResp, st map[string]bool) string {
	ready := stateReady(st)
	overall, ok := r.Body[health.OverallReady]
	if !ok {
		return "body has no 'overall' entry"
	}
	allOK := true
	for k, v := range r.Body {
		if k == health.OverallReady {
			continue
		}
		if v != health.ComponentReady {
			allOK = false
		}
	}
	if (overall == health.ComponentReady) != allOK {
		return fmt.Sprintf("body is not self-consistent: overall=%q but components %v", overall, r.Body)
	}
	if ready {
		if r.Code != http.StatusOK || overall != health.ComponentReady {
			return fmt.Sprintf("all registered components ready but status %d overall %q", r.Code, overall)
		}
	} else {
		if r.Code != http.StatusServiceUnavailable || overall != health.ComponentNotReady {
			return fmt.Sprintf("a registered component is not ready but status %d overall %q", r.Code, overall)
		}
	}
	// every registered component must be listed with its status
	for k, v := range st {
		want := health.ComponentNotReady
		if v {
			want = health.ComponentReady
		}
		if r.Body[k] != want {
			return fmt.Sprintf("component %q listed as %q, want %q", k, r.Body[k], want)
		}
	}
	// (an additional informational entry is not judged beyond the self-consistency rule above)
	return ""
}

func execC18Seq(c c18Case) Outcome {
	h := health.NewHealth()
	states := modelStates(c.Ops)
	reRegister := false
	seenReady := map[string]bool{}
	for i := 0; i <= len(c.Ops); i++ {
		if i > 0 {
			o := c.Ops[i-1]
			applyHOp(h, o)
			if o.K == "ready" {
				seenReady[o.C] = true
			} else if seenReady[o.C] {
				reRegister = true
			}
		}
		r, err := doReadyz(h)
		if err != nil {
			return Outcome{Err: err}
		}
		if msg := checkResp(r, states[i]); msg != "" {
			return fail("after %d ops %v: %s (response %d %v)", i, c.Ops[:i], msg, r.Code, r.Body)
		}
		if h.IsReady() != stateReady(states[i]) {
			return fail("after %d ops %v: IsReady()=%v, model %v", i, c.Ops[:i], h.IsReady(), stateReady(states[i]))
		}
	}
	var labels []string
	if reRegister {
		labels = append(labels, "re_registration_after_ready")
	}
	return Outcome{NT: reRegister, Labels: labels}
}

func TestC18_Seq(t *testing.T) {
	RunProp(t, "c18.seq", func(rt *rapid.T) c18Case { return c18Case{Ops: genHOps(rt, 14)} }, execC18Seq)
}

// concurrent part: one updater thread || 1-2 request threads under S-COOP ----

type c18ConcCase struct {
	Pre      []hOp `json:"pre"`
	Ops      []hOp `json:"ops"`
	Requests int   `json:"requests"` // number of request threads (each performs one request)
	Schedule []int `json:"schedule"`
}

type c18Run struct {
	c       c18ConcCase
	h       *health.Health
	started int // updater ops started
	done    int // updater ops completed
	resp    []readyzResp
	rerr    []error
	kStart  []int
	kEnd    []int
}

func newC18Run(c c18ConcCase) *c18Run {
	r := &c18Run{c: c, h: health.NewHealth()}
	for _, o := range c.Pre {
		applyHOp(r.h, o)
	}
	r.resp = make([]readyzResp, c.Requests)
	r.rerr = make([]error, c.Requests)
	r.kStart = make([]int, c.Requests)
	r.kEnd = make([]int, c.Requests)
	return r
}

func (r *c18Run) fns() []func() {
	fns := []func(){func() {
		for _, o := range r.c.Ops {
			r.started++
			applyHOp(r.h, o)
			r.done++
		}
	}}
	for i := 0; i < r.c.Requests; i++ {
		i := i
		fns = append(fns, func() {
			r.kStart[i] = r.done
			r.resp[i], r.rerr[i] = doReadyz(r.h)
			r.kEnd[i] = r.started
		})
	}
	return fns
}

func (r *c18Run) evaluate(res coopResult) error {
	if res.Deadlock {
		return fmt.Errorf("deadlock: %s", res.DeadlockMsg)
	}
	states := modelStates(append(append([]hOp{}, r.c.Pre...), r.c.Ops...))
	base := len(r.c.Pre)
	// after everything returned, one more request must see the final state
	// (a stale snapshot installed during the interleaving shows up here)
	final, ferr := doReadyz(r.h)
	if ferr != nil {
		return ferr
	}
	if msg := checkResp(final, states[len(states)-1]); msg != "" {
		return fmt.Errorf("request after all concurrent operations returned: %s (response %d %v; updates %v after %v; schedule %v)", msg, final.Code, final.Body, r.c.Ops, r.c.Pre, res.Trace)
	}
	if r.h.IsReady() != stateReady(states[len(states)-1]) {
		return fmt.Errorf("IsReady()=%v after all concurrent operations, model %v", r.h.IsReady(), stateReady(states[len(states)-1]))
	}
	for i := 0; i < r.c.Requests; i++ {
		if r.rerr[i] != nil {
			return r.rerr[i]
		}
		var msgs []string
		ok := false
		for k := r.kStart[i]; k <= r.kEnd[i]; k++ {
			m := checkResp(r.resp[i], states[base+k])
			if m == "" {
				ok = true
				break
			}
			msgs = append(msgs, fmt.Sprintf("state after %d updates: %s", k, m))
		}
		if !ok {
			sort.Strings(msgs)
			return fmt.Errorf("request %d (ran while updates %d..%d of %v were applied after %v) returned %d %v which matches no state in that window: %v; schedule %v",
				i, r.kStart[i], r.kEnd[i], r.c.Ops, r.c.Pre, r.resp[i].Code, r.resp[i].Body, msgs, res.Trace)
		}
	}
	return nil
}

func execC18Conc(c c18ConcCase) Outcome {
	coopYieldAfterUnlock = true
	defer func() { coopYieldAfterUnlock = false }()
	r := newC18Run(c)
	choose := func(k, n int) int {
		if len(c.Schedule) == 0 {
			return 0
		}
		return c.Schedule[k%len(c.Schedule)] % n
	}
	res := runSchedule(r.fns(), choose, -1)
	if res.Inconcl != "" {
		panic(&infraError{res.Inconcl})
	}
	if err := r.evaluate(res); err != nil {
		return Outcome{Err: err}
	}
	// non-trivial: an update was ordered between a request's lock acquisitions
	nt := false
	for i := 0; i < c.Requests; i++ {
		if r.kEnd[i] > r.kStart[i] {
			nt = true
		}
	}
	return Outcome{NT: nt, Labels: []string{fmt.Sprintf("requests:%d", c.Requests)}}
}

func genC18Conc(rt *rapid.T) c18ConcCase {
	return c18ConcCase{
		Pre:      genHOps(rt, 4),
		Ops:      append(genHOps(rt, 3), hOp{K: pick(rt, "lk", []string{"add", "ready"}), C: pick(rt, "lc", compNames)}),
		Requests: rapid.IntRange(1, 2).Draw(rt, "req"),
		Schedule: rapid.SliceOfN(rapid.IntRange(0, 2), 0, 30).Draw(rt, "schedule"),
	}
}

func TestC18_Conc(t *testing.T) { RunProp(t, "c18.conc", genC18Conc, execC18Conc) }

// exhaustive schedules of fixed small programs
func TestC18_DFS(t *testing.T) {
	step := "c18.dfs"
	if replayMode() {
		var c c18ConcCase
		mine, err := loadReplay(step, &c)
		if !mine {
			t.Skip()
		}
		if err != nil {
			t.Fatal(err)
		}
		if o := safeExec(execC18Conc, c); o.Err != nil {
			writeFail(step, c, o.Err)
			t.Fatalf("REPLAY-FAIL step=%s: %v", step, o.Err)
		}
		return
	}
	progs := []c18ConcCase{
		{Pre: []hOp{{"add", "a"}, {"add", "b"}}, Ops: []hOp{{"ready", "a"}, {"ready", "b"}}, Requests: 1},
		{Pre: []hOp{{"add", "a"}, {"ready", "a"}}, Ops: []hOp{{"add", "b"}, {"ready", "b"}}, Requests: 1},
		{Pre: []hOp{{"add", "a"}, {"add", "b"}, {"ready", "b"}}, Ops: []hOp{{"ready", "a"}, {"add", "b"}}, Requests: 2},
		{Pre: []hOp{{"add", "a"}}, Ops: []hOp{{"ready", "a"}, {"add", "a"}, {"ready", "a"}}, Requests: 2},
		{Pre: nil, Ops: []hOp{{"add", "a"}, {"ready", "a"}}, Requests: 2},
		// re-registration of a ready component followed by the last missing ready-mark:
		// a reader that sees "b ready" (old) and "a ready" (new) reports a state that never existed
		{Pre: []hOp{{"add", "a"}, {"add", "b"}, {"ready", "b"}}, Ops: []hOp{{"add", "b"}, {"ready", "a"}}, Requests: 1},
		{Pre: []hOp{{"add", "a"}, {"add", "b"}, {"add", "named-pipe-processor"}, {"ready", "b"}, {"ready", "named-pipe-processor"}},
			Ops: []hOp{{"add", "named-pipe-processor"}, {"add", "b"}, {"ready", "a"}}, Requests: 1},
	}
	si, sn := shard()
	all := true
	coopYieldAfterUnlock = true
	defer func() { coopYieldAfterUnlock = false }()
	for pi, p := range progs {
		if pi%sn != si {
			continue
		}
		p := p
		mk := func() ([]func(), func(coopResult) error) {
			r := newC18Run(p)
			return r.fns(), func(res coopResult) error {
				err := r.evaluate(res)
				cc := p
				cc.Schedule = res.Choices
				nt := false
				for i := 0; i < p.Requests; i++ {
					if r.kEnd[i] > r.kStart[i] {
						nt = true
					}
				}
				record(step, cc, Outcome{NT: nt})
				return err
			}
		}
		runs, exhausted, err, res := dfsSchedules(mk, -1, envInt("VERIF_SCHED_BUDGET", 30000))
		if ie, ok := err.(*infraError); ok {
			infraExit(ie.msg)
		}
		if err != nil {
			cc := p
			cc.Schedule = res.Choices
			writeFail(step, cc, err)
			t.Errorf("step=%s: %v", step, err)
			return
		}
		if !exhausted {
			all = false
		}
		addNote(step, fmt.Sprintf("program %d: %d schedules, exhaustive=%v", pi, runs, exhausted))
	}
	setExhaustive(step, all)
}

// WaitForReady ---------------------------------------------------------------

type c18WaitCase struct {
	Pre    []hOp  `json:"pre"`
	Then   []hOp  `json:"then"`   // applied while waiting
	After  []hOp  `json:"after"`  // applied after the first wait completed, followed by a second wait
	Cancel bool   `json:"cancel"` // cancel instead of (or before) becoming ready
	Mode   string `json:"mode"`
}

func execC18Wait(c c18WaitCase) Outcome {
	health.DefaultReadyCheckInterval = time.Millisecond
	h := health.NewHealth()
	for _, o := range c.Pre {
		applyHOp(h, o)
	}
	states := modelStates(append(append([]hOp{}, c.Pre...), c.Then...))
	ctx, cancel := context.WithCancel(context.Background())
	defer cancel()
	ch := h.WaitForReady(ctx)
	cur := len(c.Pre)
	readySince := stateReady(states[cur])
	closed := false
	observe := func(d time.Duration) (bool, error, bool) { // closed?, value, gotValue
		select {
		case err, ok := <-ch:
			if !ok {
				return true, nil, false
			}
			return false, err, true
		case <-time.After(d):
			return false, nil, false
		}
	}
	for _, o := range c.Then {
		if !readySince {
			// not ready: the channel must stay open over >= 20 poll intervals
			if cl, v, got := observe(25 * time.Millisecond); cl || got {
				return fail("WaitForReady completed (closed=%v value=%v) while a registered component is not ready; ops so far %v", cl, v, append(c.Pre, c.Then...)[:cur])
			}
		}
		applyHOp(h, o)
		cur++
		if stateReady(states[cur]) {
			readySince = true
		} else if readySince {
			// became not-ready again: the waiter may or may not have fired in
			// between (it polls); stop constraining this case
			return Outcome{Skip: "ready_then_not_ready_during_wait"}
		}
	}
	if c.Cancel && !readySince {
		cancel()
		cl, v, got := observe(5 * time.Second)
		if cl {
			return fail("context cancelled while not ready: channel was closed (reports ready) instead of yielding the context's error")
		}
		if !got || v == nil || v != ctx.Err() { //nolint:errorlint // "yields the context's error"
			return fail("context cancelled while not ready: got value=%v (received=%v), want %v", v, got, ctx.Err())
		}
		return Outcome{NT: true, Labels: []string{"cancel_first"}}
	}
	if readySince {
		cl, v, got := observe(5 * time.Second)
		if !cl || got {
			return fail("all registered components ready but WaitForReady did not complete within 5s (closed=%v value=%v)", cl, v)
		}
		closed = true
	} else {
		if cl, v, got := observe(25 * time.Millisecond); cl || got {
			return fail("WaitForReady completed (closed=%v value=%v) while not ready at the end; ops %v", cl, v, append(c.Pre, c.Then...))
		}
	}
	labels := []string{fmt.Sprintf("closed:%v", closed)}
	if closed && len(c.After) > 0 {
		// a second wait on the same Health, after further registrations / marks
		for _, o := range c.After {
			applyHOp(h, o)
		}
		st2 := modelStates(append(append(append([]hOp{}, c.Pre...), c.Then...), c.After...))
		ready2 := stateReady(st2[len(st2)-1])
		ctx2, cancel2 := context.WithCancel(context.Background())
		defer cancel2()
		ch2 := h.WaitForReady(ctx2)
		var done2, got2 bool
		var v2 error
		wait := 25 * time.Millisecond
		if ready2 {
			wait = 5 * time.Second
		}
		select {
		case err, ok := <-ch2:
			done2, got2, v2 = !ok, ok, err
		case <-time.After(wait):
		}
		if ready2 && !done2 {
			return fail("second wait: all registered components ready but it did not complete (value %v)", v2)
		}
		if !ready2 {
			if done2 || got2 {
				return fail("second wait on the same Health completed (closed=%v value=%v) although a component registered after the first wait is not ready; ops %v then %v", done2, v2, append(c.Pre, c.Then...), c.After)
			}
			cancel2()
			select {
			case err, ok := <-ch2:
				if !ok || err == nil {
					return fail("second wait: cancelled while not ready but the channel was closed / yielded nil")
				}
			case <-time.After(5 * time.Second):
				return fail("second wait: cancelled while not ready but nothing was yielded within 5s")
			}
		}
		labels = append(labels, "second_wait")
	}
	return Outcome{NT: closed && len(c.Then) > 0, Labels: labels}
}

func TestC18_Wait(t *testing.T) {
	RunProp(t, "c18.wait", func(rt *rapid.T) c18WaitCase {
		two := func(max int) []hOp {
			n := rapid.IntRange(0, max).Draw(rt, "n")
			ops := make([]hOp, n)
			for i := range ops {
				ops[i] = hOp{K: pick(rt, "k", []string{"add", "ready", "ready"}), C: pick(rt, "c", []string{"a", "b"})}
			}
			return ops
		}
		if rapid.Bool().Draw(rt, "twonames") {
			return c18WaitCase{Pre: two(4), Then: two(5), After: two(3), Cancel: rapid.Bool().Draw(rt, "cancel")}
		}
		return c18WaitCase{Pre: genHOps(rt, 4), Then: genHOps(rt, 3), After: genHOps(rt, 3), Cancel: rapid.Bool().Draw(rt, "cancel")}
	}, execC18Wait)
}
