package vh

import (
	"fmt"
	"sort"
	"strconv"
	"strings"
	"time"

	"github.com/elastic/go-libaudit/v2/aucoalesce"
	"github.com/elastic/go-libaudit/v2/auparse"
	"github.com/metal-toolbox/auditevent"

	"github.com/metal-toolbox/audito-maldito/internal/common"
	"github.com/metal-toolbox/audito-maldito/processors/auditd/sessiontracker"
)

// ---------------------------------------------------------------------------
// Histories (H-GEN alphabet) — shared by C01, C02, C04, C09, C14, C15, C16, C03.

type hop struct {
	K   string `json:"k"`             // login | open | ev | disp | noise | clean
	S   int    `json:"s,omitempty"`   // session number (open/ev/disp/noise:unknown_ses)
	P   int    `json:"p,omitempty"`   // pid number (login/open)
	T   string `json:"t,omitempty"`   // ev: record type; noise: nosession|unset|unknown_ses
	Cut int    `json:"cut,omitempty"` // clean: -1 far past; n>=0: instant just before op n (len = after all so far); 1<<20 far future
	Old int    `json:"old,omitempty"` // open: the LOGIN record's old-ses names session Old (0 = unset); the correlator must not care
	PP  int    `json:"pp,omitempty"`  // open: the process's parent is pid PP (0 = init) — e.g. a child of another login's sshd; the correlator must not care
}

type history struct {
	Ops []hop `json:"ops"`
}

func (h history) String() string {
	parts := make([]string, len(h.Ops))
	for i, o := range h.Ops {
		parts[i] = o.String()
	}
	return strings.Join(parts, " ")
}

func (o hop) String() string {
	switch o.K {
	case "login":
		if o.T != "" {
			return fmt.Sprintf("L(p%d,%s)", o.P, o.T)
		}
		return fmt.Sprintf("L(p%d)", o.P)
	case "open":
		if o.Old != 0 {
			return fmt.Sprintf("O(s%d,p%d,old=s%d)", o.S, o.P, o.Old)
		}
		return fmt.Sprintf("O(s%d,p%d)", o.S, o.P)
	case "ev":
		if o.P != 0 && o.P != o.S {
			return fmt.Sprintf("E(s%d,%s,pid p%d)", o.S, o.T, o.P)
		}
		return fmt.Sprintf("E(s%d,%s)", o.S, o.T)
	case "disp":
		return fmt.Sprintf("D(s%d)", o.S)
	case "noise":
		if o.T == "unknown_ses" {
			return fmt.Sprintf("N(unknown s%d,pid p%d)", o.S, o.P)
		}
		if o.P != 0 {
			return fmt.Sprintf("N(%s,p%d)", o.T, o.P)
		}
		return fmt.Sprintf("N(%s)", o.T)
	case "clean":
		return fmt.Sprintf("C(%d)", o.Cut)
	}
	return "?"
}

const farFuture = 1 << 20

// opPidString: the pid field an event op carries (0 = some unrelated process).
func opPidString(o hop) string {
	if o.P == 0 {
		return "778"
	}
	return strconv.Itoa(pidValue(o.P))
}

// sesString maps a session number of the history alphabet to a kernel session
// id; the ids cover the unsigned 32-bit range (only 4294967295 is reserved).
func sesString(s int) string {
	switch s % 5 {
	case 3:
		return strconv.FormatInt(2147483648+int64(s), 10)
	case 4:
		return strconv.FormatInt(4294967294-int64(s), 10)
	}
	return strconv.Itoa(500 + s)
}
// pidValue maps a history's small pid numbers to kernel PIDs (pid_max is 4194304).
// The PIDs of one history are 65536 apart, so they coincide modulo every smaller
// power of two: an index or cache keyed by a truncated PID must still tell them apart.
func pidValue(p int) int {
	if p > 0 && p < 60 {
		return 2000 + p*65536
	}
	return 2000 + p
}

var evBase = time.Unix(1700000000, 0).UTC()

func evTime(opIndex int) time.Time { return evBase.Add(time.Duration(opIndex) * time.Millisecond) }

func evIndexOf(t time.Time) int { return int(t.Sub(evBase) / time.Millisecond) }

// Histories give op i the kernel timestamp index scramble(i): unique, but NOT
// monotonic in processing order (the reassembler may deliver events out of
// timestamp order, and "the order the events were processed" is what counts).
const scrambleMod = 100003

func scramble(i int) int { return (i*7919 + 13) % scrambleMod }

var unscrambleTable = func() map[int]int {
	m := make(map[int]int, 20000)
	for i := 0; i < 20000; i++ {
		m[scramble(i)] = i
	}
	return m
}()

// opTime is the kernel timestamp a history op carries; opIndexOf inverts it.
func opTime(opIndex int) time.Time { return evTime(scramble(opIndex)) }

func opIndexOf(t time.Time) int {
	if i, ok := unscrambleTable[evIndexOf(t)]; ok {
		return i
	}
	return -1
}

var evTypes = map[string]auparse.AuditMessageType{
	"USER_START": auparse.AUDIT_USER_START, "USER_END": auparse.AUDIT_USER_END, "CRED_ACQ": auparse.AUDIT_CRED_ACQ,
	"USER_LOGIN": auparse.AUDIT_USER_LOGIN, "USER_CMD": auparse.AUDIT_USER_CMD, "SYSCALL": auparse.AUDIT_SYSCALL,
	"USER_ACCT": auparse.AUDIT_USER_ACCT, "CRED_REFR": auparse.AUDIT_CRED_REFR, "LOGIN": auparse.AUDIT_LOGIN,
	"CRED_DISP": auparse.AUDIT_CRED_DISP, "EXECVE": auparse.AUDIT_EXECVE, "PATH": auparse.AUDIT_PATH,
	"USER_AUTH": auparse.AUDIT_USER_AUTH, "USER_ERR": auparse.AUDIT_USER_ERR, "SERVICE_START": auparse.AUDIT_SERVICE_START,
}

var evTypeNames = []string{"USER_START", "USER_END", "CRED_ACQ", "USER_LOGIN", "USER_CMD", "SYSCALL", "USER_ACCT", "CRED_REFR", "USER_AUTH", "USER_ERR", "SERVICE_START"}

// apiEvent builds the coalesced event an op stands for (correlator API level).
func apiEvent(i int, o hop) *aucoalesce.Event {
	// kernel serial numbers: the order in which completed events reach the
	// correlator need not be ascending (late records), and the 32-bit serial wraps
	e := &aucoalesce.Event{Timestamp: opTime(i), Sequence: uint32(uint64(4294967200) + uint64(scramble(i)%193)), Result: "success"}
	e.Summary.Action = "act" + strconv.Itoa(i)
	e.Summary.How = "how" + strconv.Itoa(i)
	e.Summary.Object.Primary = "obj" + strconv.Itoa(i)
	switch o.K {
	case "open":
		e.Type = auparse.AUDIT_LOGIN
		e.Session = sesString(o.S)
		e.Process.PID = strconv.Itoa(pidValue(o.P))
		e.Data = map[string]string{"old-auid": "4294967295", "tty": "(none)", "old-ses": "4294967295"}
		if o.Old != 0 {
			e.Data["old-ses"] = sesString(o.Old)
		}
	case "disp":
		e.Type = auparse.AUDIT_CRED_DISP
		e.Session = sesString(o.S)
		e.Process.PID = opPidString(o)
		if i%2 == 1 {
			e.Result = "fail" // a failed credential disposal still ends the session
		}
	case "ev":
		e.Type = evTypes[o.T]
		e.Session = sesString(o.S)
		e.Process.PID = opPidString(o)
		if o.T == "SYSCALL" {
			e.Process.Args = []string{"cmd" + strconv.Itoa(i), "-x"}
		}
		if i%3 == 0 {
			e.Result = "fail"
		}
	case "noise":
		e.Type = auparse.AUDIT_USER_ACCT
		if i%2 == 0 {
			e.Type = auparse.AUDIT_SYSCALL
		}
		switch o.T {
		case "nosession":
			e.Session = ""
		case "unset":
			e.Session = "unset"
		case "login_unset":
			e.Type = auparse.AUDIT_LOGIN
			e.Session = "unset"
			e.Process.PID = strconv.Itoa(pidValue(o.P))
		case "login_nosession":
			e.Type = auparse.AUDIT_LOGIN
			e.Session = ""
			e.Process.PID = strconv.Itoa(pidValue(o.P))
		default:
			e.Session = sesString(o.S)
			e.Process.PID = opPidString(o)
			if i%4 == 1 {
				e.Type = auparse.AUDIT_CRED_DISP
			}
			if i%4 == 2 {
				e.Type = auparse.AUDIT_USER_START
			}
		}
	}
	e.Process.PPID = "1"
	if o.K == "open" && o.PP != 0 {
		e.Process.PPID = strconv.Itoa(pidValue(o.PP))
	}
	return e
}

// loginFor builds the login a "login" op stands for. gen distinguishes
// successive logins of a reused PID.
func loginFor(opIndex int, o hop) common.RemoteUserLogin {
	user := fmt.Sprintf("user%d_op%d", o.P, opIndex)
	addr := fmt.Sprintf("10.0.%d.%d", o.P, opIndex)
	if o.T == "same_account" {
		// the same account from the same host: only the source port tells the logins apart
		user = fmt.Sprintf("user%d", o.P)
		addr = fmt.Sprintf("10.0.%d.1", o.P)
	}
	ev := auditevent.NewAuditEvent(common.ActionLoginIdentifier,
		auditevent.EventSource{Type: "IP", Value: addr, Extra: map[string]any{"port": strconv.Itoa(40000 + opIndex)}},
		auditevent.OutcomeSucceeded,
		map[string]string{"loggedAs": user, "userID": "cred-" + user, "pid": strconv.Itoa(pidValue(o.P))},
		"sshd").WithTarget(map[string]string{"host": vhNode, "machine-id": vhMachineID})
	return common.RemoteUserLogin{Source: ev, PID: pidValue(o.P), CredUserID: "cred-" + user}
}

// ---------------------------------------------------------------------------
// M-CORR — reference model of the correlator, written from the statements of
// C01, C02, C04, C09, C16 (not from the implementation).

type mEmit struct {
	Ev    int // op index of the emitted audit event
	Login int // op index of the login whose identity it carries
	Ses   int
}

type mSess struct {
	pid      int
	bound    bool
	login    int
	held     []int
	openedAt int
}

type mWait struct{ login, at int }

type corrModel struct {
	sess      map[int]*mSess
	closed    map[int]int // ended session -> login op index (identity of stray events)
	waiting   map[int]mWait
	stray     map[int]int // op index of a stray event -> login op index it may carry
	ambiguous bool        // a login matched more than one pending session (outside every quantifier)
	opened    map[int]bool
}

func newCorrModel() *corrModel {
	return &corrModel{sess: map[int]*mSess{}, closed: map[int]int{}, waiting: map[int]mWait{}, stray: map[int]int{}, opened: map[int]bool{}}
}

// step applies op i and returns what must be emitted while it is processed.
func (m *corrModel) step(i int, o hop, ops []hop) []mEmit {
	var out []mEmit
	emit := func(ev, login, ses int) { out = append(out, mEmit{Ev: ev, Login: login, Ses: ses}) }
	switch o.K {
	case "login":
		var cands []int
		for s, u := range m.sess {
			if u.pid == o.P && !u.bound {
				cands = append(cands, s)
			}
		}
		sort.Ints(cands)
		if len(cands) > 1 {
			m.ambiguous = true
		}
		if len(cands) >= 1 {
			s := cands[0]
			u := m.sess[s]
			u.bound, u.login = true, i
			ended := false
			for _, ev := range u.held {
				emit(ev, i, s)
				if ops[ev].K == "disp" {
					ended = true
				}
			}
			u.held = nil
			if ended {
				m.closed[s] = i
				delete(m.sess, s)
			}
			return out
		}
		m.waiting[o.P] = mWait{login: i, at: i}
	case "open", "ev", "disp":
		u, known := m.sess[o.S]
		switch {
		case known && u.bound:
			emit(i, u.login, o.S)
			if o.K == "disp" {
				m.closed[o.S] = u.login
				delete(m.sess, o.S)
			}
		case known:
			u.held = append(u.held, i)
		case o.K == "open":
			m.opened[o.S] = true
			if w, ok := m.waiting[o.P]; ok {
				delete(m.waiting, o.P)
				m.sess[o.S] = &mSess{pid: o.P, bound: true, login: w.login, openedAt: i}
				emit(i, w.login, o.S)
			} else {
				m.sess[o.S] = &mSess{pid: o.P, held: []int{i}, openedAt: i}
			}
		default:
			if l, was := m.closed[o.S]; was {
				m.stray[i] = l // may be dropped, or emitted with the ended session's identity
			}
		}
	case "noise":
		// never emitted
	case "clean":
		for s, u := range m.sess {
			if !u.bound && u.openedAt < o.Cut {
				delete(m.sess, s)
			}
		}
		for p, w := range m.waiting {
			if w.at < o.Cut {
				delete(m.waiting, p)
			}
		}
	}
	return out
}

// ---------------------------------------------------------------------------
// Execution at the correlator API.

type aEmit struct {
	Ev       int    // op index decoded from loggedAt
	Ses      string // auditId
	Identity string // identityKey of the emitted event
	Type     string
	Raw      *auditevent.AuditEvent
}

type stepTrace struct {
	Actual []aEmit
	Model  []mEmit
	Err    error
}

type corrTrace struct {
	H        history
	Steps    []stepTrace
	Logins   map[int]string // login op index -> identityKey (deep copy taken before hand-over)
	LoginRaw map[int]*auditevent.AuditEvent
	LoginPtr map[int]*auditevent.AuditEvent
	Model    *corrModel
}

type trackerAPI interface {
	RemoteLogin(common.RemoteUserLogin) error
	AuditdEvent(*aucoalesce.Event) error
	DeleteUsersWithoutLoginsBefore(time.Time)
	DeleteRemoteUserLoginsBefore(time.Time)
}

func decodeEmits(evs []RecEv) []aEmit {
	out := make([]aEmit, len(evs))
	for i, e := range evs {
		out[i] = aEmit{Ev: opIndexOf(e.Ev.LoggedAt), Ses: e.Ev.Metadata.AuditID, Identity: identityKey(e.Ev), Type: e.Ev.Type, Raw: e.Ev}
	}
	return out
}

// strictlyLater returns a clock reading strictly after prev.
func strictlyLater(prev time.Time) time.Time {
	for {
		t := time.Now()
		if t.After(prev) {
			return t
		}
	}
}

// runHistoryAPI drives a fresh sessionTracker with the history, op by op, and
// records what reached the encoder during each op next to the model's answer.
func runHistoryAPI(h history, rec *Rec) corrTrace { return runHistoryAPIOpt(h, rec, false) }

// runHistoryAPIOpt: with skipClean the cleanup operations are not executed
// (metamorphic reference for C16).
func runHistoryAPIOpt(h history, rec *Rec, skipClean bool) corrTrace {
	if rec == nil {
		rec = &Rec{}
	}
	var tr trackerAPI = sessiontracker.NewSessionTracker(newWriter(rec), vhLogger)
	m := newCorrModel()
	ct := corrTrace{H: h, Logins: map[int]string{}, LoginRaw: map[int]*auditevent.AuditEvent{}, LoginPtr: map[int]*auditevent.AuditEvent{}, Model: m}
	// instants[i] is a clock reading taken strictly before op i and strictly
	// after op i-1 (an order token for cleanup cut-offs).
	instants := make([]time.Time, 0, len(h.Ops)+1)
	last := time.Now()
	seen := 0
	for i, o := range h.Ops {
		last = strictlyLater(last)
		instants = append(instants, last)
		last = strictlyLater(last)
		var err error
		switch o.K {
		case "login":
			l := loginFor(i, o)
			l.Source.LoggedAt = last // arrival instant
			ct.Logins[i] = identityKey(l.Source)
			ct.LoginRaw[i] = deepCopyEvent(l.Source)
			ct.LoginPtr[i] = l.Source
			err = tr.RemoteLogin(l)
		case "open", "ev", "disp", "noise":
			err = tr.AuditdEvent(apiEvent(i, o))
		case "clean":
			if skipClean {
				break
			}
			var cut time.Time
			switch {
			case o.Cut < 0:
				cut = time.Unix(1, 0)
			case o.Cut >= farFuture:
				cut = time.Now().Add(24 * time.Hour)
			case o.Cut >= len(instants):
				cut = strictlyLater(last)
			default:
				cut = instants[o.Cut]
			}
			tr.DeleteUsersWithoutLoginsBefore(cut)
			tr.DeleteRemoteUserLoginsBefore(cut)
		}
		last = strictlyLater(last)
		all := rec.Events()
		st := stepTrace{Actual: decodeEmits(all[seen:]), Model: m.step(i, normCut(o, i), h.Ops), Err: err}
		seen = len(all)
		ct.Steps = append(ct.Steps, st)
	}
	return ct
}

// normCut maps a clean op's cut to the model's op-index scale: entries that
// arrived at op index < cut are older than the cut-off.
func normCut(o hop, i int) hop {
	if o.K != "clean" {
		return o
	}
	switch {
	case o.Cut < 0:
		o.Cut = -1
	case o.Cut >= farFuture || o.Cut > i:
		o.Cut = i
	}
	return o
}

// ---------------------------------------------------------------------------
// Property-specific oracles over a trace.

// firstOpen returns, per session, the pid number of the LOGIN record that
// opened it in the generated history (first open op), for histories without
// session-id reuse.
func firstOpen(h history) map[int]int {
	out := map[int]int{}
	for _, o := range h.Ops {
		if o.K == "open" {
			if _, ok := out[o.S]; !ok {
				out[o.S] = o.P
			}
		}
	}
	return out
}

func sesNumber(s string) (int, bool) {
	n, err := strconv.ParseInt(s, 10, 64)
	if err != nil {
		return 0, false
	}
	switch {
	case n >= 4294967000:
		return int(4294967294 - n), true
	case n >= 2147483648:
		return int(n - 2147483648), true
	}
	return int(n - 500), true
}

// oracleC01: every emitted UserAction carries the identity of the login whose
// PID equals the PID of the LOGIN record that opened its session (histories
// without PID/session reuse: each PID logs in once).
func oracleC01(ct corrTrace) error {
	opened := firstOpen(ct.H)
	loginOfPID := map[int]int{}
	for i, o := range ct.H.Ops {
		if o.K == "login" {
			loginOfPID[o.P] = i
		}
	}
	for i, st := range ct.Steps {
		for _, a := range st.Actual {
			if a.Type != common.ActionUserAction {
				return fmt.Errorf("step %d (%s): emitted event of type %q", i, ct.H.Ops[i], a.Type)
			}
			s, ok := sesNumber(a.Ses)
			p, opn := opened[s]
			if !ok || !opn {
				return fmt.Errorf("step %d (%s): UserAction with auditId %q whose LOGIN record was never seen; history: %s", i, ct.H.Ops[i], a.Ses, ct.H)
			}
			li, has := loginOfPID[p]
			if !has {
				return fmt.Errorf("step %d (%s): UserAction for session %s (opened by pid p%d) although no login with that pid exists; identity %s; history: %s", i, ct.H.Ops[i], a.Ses, p, a.Identity, ct.H)
			}
			if a.Identity != ct.Logins[li] {
				return fmt.Errorf("step %d (%s): UserAction of session %s (opened by p%d) carries identity %s, want that of login op %d %s; history: %s", i, ct.H.Ops[i], a.Ses, p, a.Identity, li, ct.Logins[li], ct.H)
			}
		}
	}
	return nil
}

// oracleC02: per correlated session the emitted event sequence equals the
// model's at every prefix (none lost, none duplicated, order preserved,
// released when the login arrives). Stray post-disposal events are optional.
func oracleC02(ct corrTrace) error {
	type key = int
	act := map[key][]int{}
	mod := map[key][]int{}
	for i, st := range ct.Steps {
		for _, e := range st.Model {
			mod[e.Ses] = append(mod[e.Ses], e.Ev)
		}
		for _, a := range st.Actual {
			if _, stray := ct.Model.stray[a.Ev]; stray {
				continue
			}
			s, ok := sesNumber(a.Ses)
			if !ok {
				continue
			}
			act[s] = append(act[s], a.Ev)
		}
		// compare only sessions the model correlates (others are C04's concern)
		for s, want := range mod {
			got := act[s]
			if !intsEqual(got, want) {
				return fmt.Errorf("after step %d (%s): session s%d emitted events (by op index) %v, want %v; history: %s", i, ct.H.Ops[i], s, got, want, ct.H)
			}
		}
	}
	return nil
}

func intsEqual(a, b []int) bool {
	if len(a) != len(b) {
		return false
	}
	for i := range a {
		if a[i] != b[i] {
			return false
		}
	}
	return true
}

// oracleC04: prefix safety — after every step nothing is emitted for an event
// without session / with the unset session, for a session that is not
// correlated at that point, and strays carry only the ended session's identity.
func oracleC04(ct corrTrace) error {
	// sessions whose LOGIN record was seen and for whose pid an SSH login has
	// arrived by now — computed WITHOUT the cleanup calls, so that what cleanup
	// must discard (C16's concern) is not judged here
	correlated := map[int]bool{}
	noClean := newCorrModel()
	for i, st := range ct.Steps {
		if ct.H.Ops[i].K != "clean" {
			for _, e := range noClean.step(i, ct.H.Ops[i], ct.H.Ops) {
				correlated[e.Ses] = true
			}
		}
		for _, e := range st.Model {
			correlated[e.Ses] = true
		}
		for _, a := range st.Actual {
			if a.Ses == "" || a.Ses == "unset" || a.Ses == "4294967295" || a.Ses == "-1" {
				return fmt.Errorf("step %d (%s): event emitted with session %q; history: %s", i, ct.H.Ops[i], a.Ses, ct.H)
			}
			s, ok := sesNumber(a.Ses)
			if !ok || !correlated[s] {
				return fmt.Errorf("step %d (%s): event (op %d) emitted for session %q which is not correlated at this point; history: %s", i, ct.H.Ops[i], a.Ev, a.Ses, ct.H)
			}
			if a.Ev < 0 || a.Ev >= len(ct.H.Ops) {
				return fmt.Errorf("step %d: emitted event with unknown timestamp", i)
			}
			src := ct.H.Ops[a.Ev]
			if src.K == "noise" && src.T != "unknown_ses" {
				// (this includes LOGIN records without a usable session id)
				return fmt.Errorf("step %d (%s): a session-less event (op %d) was emitted; history: %s", i, ct.H.Ops[i], a.Ev, ct.H)
			}
			if l, stray := ct.Model.stray[a.Ev]; stray && a.Identity != ct.Logins[l] {
				return fmt.Errorf("step %d (%s): event after the credential-disposal record of session %s carries identity %s, not the session's own %s; history: %s", i, ct.H.Ops[i], a.Ses, a.Identity, ct.Logins[l], ct.H)
			}
		}
	}
	return nil
}

// oracleFull: exact agreement with M-CORR at every step (events, order,
// identity), strays optional. Used by C09 and C16 on their own history
// families.
func oracleFull(ct corrTrace) error {
	for i, st := range ct.Steps {
		var got []aEmit
		for _, a := range st.Actual {
			if l, stray := ct.Model.stray[a.Ev]; stray {
				if a.Identity != ct.Logins[l] {
					return fmt.Errorf("step %d (%s): stray event of ended session %s carries identity %s, want the ended session's own %s; history: %s", i, ct.H.Ops[i], a.Ses, a.Identity, ct.Logins[l], ct.H)
				}
				continue
			}
			got = append(got, a)
		}
		if len(got) != len(st.Model) {
			return fmt.Errorf("step %d (%s): emitted %s, model expects %s; history: %s", i, ct.H.Ops[i], fmtActual(got), fmtModel(st.Model), ct.H)
		}
		for k := range got {
			w := st.Model[k]
			if got[k].Ev != w.Ev || got[k].Ses != sesString(w.Ses) {
				return fmt.Errorf("step %d (%s): emitted %s, model expects %s; history: %s", i, ct.H.Ops[i], fmtActual(got), fmtModel(st.Model), ct.H)
			}
			if got[k].Identity != ct.Logins[w.Login] {
				return fmt.Errorf("step %d (%s): event op %d of session s%d carries identity %s, want login op %d %s; history: %s", i, ct.H.Ops[i], w.Ev, w.Ses, got[k].Identity, w.Login, ct.Logins[w.Login], ct.H)
			}
		}
	}
	return nil
}

func fmtActual(a []aEmit) string {
	parts := make([]string, len(a))
	for i, x := range a {
		parts[i] = fmt.Sprintf("op%d@%s", x.Ev, x.Ses)
	}
	return "[" + strings.Join(parts, " ") + "]"
}

func fmtModel(a []mEmit) string {
	parts := make([]string, len(a))
	for i, x := range a {
		parts[i] = fmt.Sprintf("op%d@%s(login op%d)", x.Ev, sesString(x.Ses), x.Login)
	}
	return "[" + strings.Join(parts, " ") + "]"
}

// traceErrors: no operation of a well-formed history may return an error.
func traceErrors(ct corrTrace) error {
	for i, st := range ct.Steps {
		if st.Err != nil {
			return fmt.Errorf("step %d (%s) returned error %v; history: %s", i, ct.H.Ops[i], st.Err, ct.H)
		}
	}
	return nil
}


// oracleC16 isolates the cleanup semantics (metamorphic): ctA ran the history,
// ctB ran the same history with the cleanup calls left out. A pending half that
// the cut-off rules say must be discarded (uncorrelated and older than the
// cut-off) yields nothing for its session, ever; every other session must
// behave exactly as without cleanup (cleanup never discards a younger or a
// correlated entry). Whether correlation itself is right is not judged here.
func oracleC16(ctA, ctB corrTrace) error {
	h := ctA.H
	m := newCorrModel()
	discardedSes := map[int]int{}  // session -> step of the cleanup that discards it
	discardedPID := map[int]int{}  // pid whose waiting login is discarded -> step
	survivorSes := map[int][]int{} // session -> steps of cleanups it was pending at and must survive
	survivorPID := map[int][]int{}
	for i, o := range h.Ops {
		if o.K == "clean" {
			beforeS := map[int]bool{}
			for s, u := range m.sess {
				if !u.bound {
					beforeS[s] = true
				} else {
					survivorSes[s] = append(survivorSes[s], i) // a correlated session survives every cleanup
				}
			}
			beforeP := map[int]bool{}
			for p := range m.waiting {
				beforeP[p] = true
			}
			m.step(i, normCut(o, i), h.Ops)
			for s := range beforeS {
				if _, still := m.sess[s]; !still {
					discardedSes[s] = i
				} else {
					survivorSes[s] = append(survivorSes[s], i)
				}
			}
			for p := range beforeP {
				if _, still := m.waiting[p]; !still {
					discardedPID[p] = i
				} else {
					survivorPID[p] = append(survivorPID[p], i)
				}
			}
			continue
		}
		m.step(i, o, h.Ops)
	}
	pidOf := firstOpen(h)
	// emissions per session: (step, event op index)
	type em struct {
		step, ev int
		identity string
	}
	collect := func(ct corrTrace) map[int][]em {
		out := map[int][]em{}
		for i := range ct.Steps {
			for _, a := range ct.Steps[i].Actual {
				if s, ok := sesNumber(a.Ses); ok {
					out[s] = append(out[s], em{i, a.Ev, a.Identity})
				}
			}
		}
		return out
	}
	loginOfPID := map[int]int{}
	for i, o := range h.Ops {
		if o.K == "login" {
			loginOfPID[o.P] = i
		}
	}
	a, b := collect(ctA), collect(ctB)
	sessions := map[int]bool{}
	for s := range a {
		sessions[s] = true
	}
	for s := range b {
		sessions[s] = true
	}
	for s := range sessions {
		k, dS := discardedSes[s]
		k2, dP := discardedPID[pidOf[s]]
		if dS || dP {
			if !dS || (dP && k2 < k) {
				k = k2
			}
			// discarded at step k: nothing may be emitted for it afterwards
			// (an event emitted under a foreign identity is a correlation defect,
			// C01/C04's concern, not a half that outlived its cut-off)
			rightful := ""
			if li, ok := loginOfPID[pidOf[s]]; ok {
				rightful = ctA.Logins[li]
			}
			for _, e := range a[s] {
				if e.step > k && e.identity == rightful {
					return fmt.Errorf("step %d (%s): session s%d emitted event op %d although its pending half was uncorrelated and older than the cut-off of the cleanup at step %d (it must be discarded, the held events dropped, not emitted late); history: %s", e.step, h.Ops[e.step], s, e.ev, k, h)
				}
			}
			continue
		}
		// not to be discarded: with the cleanup calls the session must not lose
		// events it emits without them — judged only if the session (or the login
		// of its pid) was pending at a cleanup that must keep it, and the loss
		// begins after that cleanup
		survived := append(append([]int{}, survivorSes[s]...), survivorPID[pidOf[s]]...)
		if len(survived) == 0 || len(a[s]) >= len(b[s]) {
			continue
		}
		prefix := true
		for i := range a[s] {
			if a[s][i].ev != b[s][i].ev {
				prefix = false
			}
		}
		if !prefix {
			continue
		}
		firstMissing := b[s][len(a[s])]
		for _, k := range survived {
			if k < firstMissing.step {
				return fmt.Errorf("session s%d was pending and younger than the cut-off at the cleanup of step %d; with the cleanup calls it never emits event op %d (emitted at step %d without them): cleanup must not discard a younger or a correlated entry; history: %s", s, k, firstMissing.ev, firstMissing.step, h)
			}
		}
	}
	return nil
}


// oracleC09 judges only what C09 states, on the sessions of reused PIDs: the
// events of such a session are emitted (each at least once; order and
// multiplicity are C02's concern) and carry the identity of the login the
// model binds to that session — never that of the other login with the same
// PID; a stray event of the ended session is absent or carries the ended
// session's own identity. Sessions of PIDs that are not reused are not judged.
func oracleC09(ct corrTrace) error {
	h := ct.H
	logins := map[int]int{}
	for _, o := range h.Ops {
		if o.K == "login" {
			logins[o.P]++
		}
	}
	reusedSes := map[int]bool{}
	for _, o := range h.Ops {
		if o.K == "open" && logins[o.P] >= 2 {
			reusedSes[o.S] = true
		}
	}
	want := map[int]map[int]int{} // session -> event op -> login op
	got := map[int]map[int]string{}
	for i, st := range ct.Steps {
		for _, e := range st.Model {
			if reusedSes[e.Ses] {
				if want[e.Ses] == nil {
					want[e.Ses] = map[int]int{}
				}
				want[e.Ses][e.Ev] = e.Login
			}
		}
		for _, a := range st.Actual {
			s, ok := sesNumber(a.Ses)
			if !ok || !reusedSes[s] {
				continue
			}
			if l, stray := ct.Model.stray[a.Ev]; stray {
				if a.Identity != ct.Logins[l] {
					return fmt.Errorf("step %d (%s): stray event of ended session %s carries identity %s, want the ended session's own %s; history: %s", i, h.Ops[i], a.Ses, a.Identity, ct.Logins[l], h)
				}
				continue
			}
			if got[s] == nil {
				got[s] = map[int]string{}
			}
			got[s][a.Ev] = a.Identity
			if wl, expected := want[s][a.Ev]; expected && a.Identity != ct.Logins[wl] {
				return fmt.Errorf("step %d (%s): event op %d of session s%d (a reused pid) carries identity %s, want that of login op %d %s; history: %s", i, h.Ops[i], a.Ev, s, a.Identity, wl, ct.Logins[wl], h)
			}
		}
		// presence at every prefix: what the model has released for a reused-pid
		// session by now must have been emitted by now
		for s, evs := range want {
			for ev := range evs {
				if _, ok := got[s][ev]; !ok {
					return fmt.Errorf("after step %d (%s): event op %d of session s%d (a reused pid) has not been emitted although the login bound to that session (op %d) is known; history: %s", i, h.Ops[i], ev, s, evs[ev], h)
				}
			}
		}
	}
	return nil
}
