package vh

import (
	"fmt"
	"sort"
	"testing"
	"time"

	"pgregory.net/rapid"
)

// C16 (real time, thorough tier only): the running audit processor applies
// cleanup with a one-minute cut-off. One Auditd.Read run of about 3.5 minutes
// with many session/login pairs whose halves arrive Δ apart,
// Δ ∈ [0,58 s] ∪ [122 s,140 s]; 60 s < Δ < 120 s is unspecified and not generated.

type c16Pair struct {
	N          int  `json:"n"`
	FirstAtMs  int  `json:"first_at_ms"`
	DeltaMs    int  `json:"delta_ms"`
	LoginFirst bool `json:"login_first"`
}

type c16RTCase struct {
	Pairs []c16Pair `json:"pairs"`
}

// c16Scale: the staleness interval the binary under test was built with. The
// thorough tier runs the unchanged code (one minute). The quick tier runs a
// time-scaled build: the driver compiles /repo's current auditd.go with the one
// interval constant replaced (VERIF_STALE_MS), so that the same real-time
// experiment takes seconds; its margins are wider because a loaded machine can
// delay the Read loop by a noticeable fraction of a two-second interval.
type c16Scale struct {
	staleMs            int
	firstMax           int // first halves are spread over [0, firstMax]
	insideMax, edgeMin int // generated Δ for "inside" pairs
	outMin, outMax     int // generated Δ for "outside" pairs
	judgeIn, judgeOut  time.Duration
}

func c16ScaleNow() c16Scale {
	ms := envInt("VERIF_STALE_MS", 60000)
	if ms == 60000 {
		return c16Scale{60000, 60000, 58000, 50000, 122000, 140000, 59 * time.Second, 121 * time.Second}
	}
	f := func(x float64) int { return int(x * float64(ms)) }
	// first halves over four intervals: login traffic never pauses for a whole
	// interval while the "outside" pairs wait (a cleanup that only runs when the
	// loop is idle must not pass)
	return c16Scale{ms, f(4.0), f(0.85), f(0.6), f(3.1), f(3.5), time.Duration(f(0.9)) * time.Millisecond, time.Duration(f(3.0)) * time.Millisecond}
}

func genC16RT(rt *rapid.T) c16RTCase {
	n := envInt("VERIF_C16_PAIRS", 40)
	sc := c16ScaleNow()
	c := c16RTCase{}
	for i := 0; i < n; i++ {
		p := c16Pair{N: i + 1, FirstAtMs: rapid.IntRange(0, sc.firstMax).Draw(rt, "first"), LoginFirst: rapid.Bool().Draw(rt, "loginFirst")}
		if rapid.Bool().Draw(rt, "inside") {
			p.DeltaMs = rapid.IntRange(0, sc.insideMax).Draw(rt, "delta")
			if rapid.IntRange(0, 3).Draw(rt, "edge") == 0 {
				p.DeltaMs = rapid.IntRange(sc.edgeMin, sc.insideMax).Draw(rt, "deltaEdge")
			}
		} else {
			p.DeltaMs = rapid.IntRange(sc.outMin, sc.outMax).Draw(rt, "deltaOut")
		}
		c.Pairs = append(c.Pairs, p)
	}
	return c
}

func execC16RT(c c16RTCase) Outcome {
	sc := c16ScaleNow()
	pairsStep := "c16.realtime.pairs"
	if sc.staleMs != 60000 {
		pairsStep = "c16.scaled.pairs"
	}
	rig := newReadRig(nil)
	defer rig.stop()
	type action struct {
		at    time.Duration
		pair  int
		login bool
	}
	var acts []action
	for i, p := range c.Pairs {
		first := time.Duration(p.FirstAtMs) * time.Millisecond
		second := first + time.Duration(p.DeltaMs)*time.Millisecond
		acts = append(acts, action{first, i, p.LoginFirst}, action{second, i, !p.LoginFirst})
	}
	sort.SliceStable(acts, func(i, j int) bool { return acts[i].at < acts[j].at })
	start := time.Now()
	idx := 0
	// actual instants (the machine may be busy: classify each pair by what
	// really happened, not by what was planned)
	firstBegin := map[int]time.Time{}
	firstEnd := map[int]time.Time{}
	secondBegin := map[int]time.Time{}
	secondEnd := map[int]time.Time{}
	mark := func(pair int, begin bool) {
		now := time.Now()
		if _, seen := firstEnd[pair]; !seen {
			if begin {
				firstBegin[pair] = now
			} else {
				firstEnd[pair] = now
			}
			return
		}
		if begin {
			secondBegin[pair] = now
		} else {
			secondEnd[pair] = now
		}
	}
	for _, a := range acts {
		if d := time.Until(start.Add(a.at)); d > 0 {
			time.Sleep(d)
		}
		p := c.Pairs[a.pair]
		mark(a.pair, true)
		if a.login {
			l := loginFor(p.N, hop{K: "login", P: p.N})
			if err := rig.login(l); err != nil {
				return fail("Read exited: %v", rig.exitErr)
			}
			if err := rig.loginBarrier(); err != nil {
				return fail("Read exited: %v", rig.exitErr)
			}
		} else {
			// the LOGIN record and one follow-up event
			for _, o := range []hop{{K: "open", S: p.N, P: p.N}, {K: "ev", S: p.N, T: "USER_START"}} {
				idx++
				for _, ln := range audEventForOp(1000*p.N+idx%1000, o).Lines {
					if err := rig.line(ln); err != nil {
						return fail("Read exited: %v", rig.exitErr)
					}
				}
			}
			if err := rig.auditBarrier(); err != nil {
				return fail("Read exited: %v", rig.exitErr)
			}
		}
		mark(a.pair, false)
	}
	// one more event per session at the end: emitted iff the pair is correlated
	for _, p := range c.Pairs {
		idx++
		for _, ln := range audEventForOp(1000*p.N+idx%1000, hop{K: "ev", S: p.N, T: "USER_END"}).Lines {
			if err := rig.line(ln); err != nil {
				return fail("Read exited: %v", rig.exitErr)
			}
		}
	}
	if err := rig.auditBarrier(); err != nil {
		return fail("Read exited: %v", rig.exitErr)
	}
	perSes := map[string]int{}
	for _, e := range rig.rec.Events() {
		perSes[e.Ev.Metadata.AuditID]++
		s, _ := sesNumber(e.Ev.Metadata.AuditID)
		want := identityKey(loginFor(s, hop{K: "login", P: s}).Source)
		if identityKey(e.Ev) != want {
			return fail("session s%d event carries identity %s, want %s", s, identityKey(e.Ev), want)
		}
	}
	for i, p := range c.Pairs {
		got := perSes[sesString(p.N)]
		widest := secondEnd[i].Sub(firstBegin[i])     // upper bound of the real distance
		narrowest := secondBegin[i].Sub(firstEnd[i]) // lower bound
		var inside bool
		switch {
		case widest <= sc.judgeIn:
			inside = true
		case narrowest >= sc.judgeOut:
			inside = false
		default:
			record(pairsStep, p, Outcome{Skip: "actual_distance_in_the_unspecified_gap"})
			continue
		}
		o := Outcome{NT: true, Labels: []string{fmt.Sprintf("inside_window:%v", inside), fmt.Sprintf("login_first:%v", p.LoginFirst)}}
		record(pairsStep, p, o)
		if inside && got != 3 {
			return fail("halves %d ms apart (login first=%v): %d of the session's 3 events emitted; they arrived within the staleness interval (%d ms in this build) of each other and must be correlated", p.DeltaMs, p.LoginFirst, got, sc.staleMs)
		}
		if !inside && got != 0 {
			return fail("halves %d ms apart (login first=%v): %d events emitted although the first half was older than %v with a staleness interval of %d ms (held events must be dropped, not emitted late)", p.DeltaMs, p.LoginFirst, got, sc.judgeOut, sc.staleMs)
		}
	}
	return Outcome{NT: true, Labels: []string{fmt.Sprintf("pairs:%d", len(c.Pairs))}}
}

func TestC16_RealTime(t *testing.T) {
	RunProp(t, "c16.realtime", genC16RT, execC16RT)
}

// the same experiment on the time-scaled build (quick tier)
func TestC16_Scaled(t *testing.T) {
	if envInt("VERIF_STALE_MS", 60000) == 60000 {
		panic(&infraError{"TestC16_Scaled needs the time-scaled build (VERIF_STALE_MS)"})
	}
	RunProp(t, "c16.scaled", func(rt *rapid.T) c16RTCase { return genC16RT(rt) }, retryFlaky("c16.scaled", execC16RT))
}
