package vh

import (
	"fmt"
	"sort"
	"strings"
	"sync"
	"testing"
	"time"

	"pgregory.net/rapid"

	"github.com/metal-toolbox/audito-maldito/internal/common"
	"github.com/metal-toolbox/audito-maldito/processors/auditd/sessiontracker"
)

// C03 — correlation is atomic under concurrent logins, audit events and cleanup.

type c03Prog struct {
	Prelude  []hop   `json:"prelude"`
	Threads  [][]hop `json:"threads"`
	Epilogue []hop   `json:"epilogue"`
}

type c03Case struct {
	Prog     c03Prog `json:"prog"`
	Schedule []int   `json:"schedule"`    // choice sequence (index into the allowed list), cycled if short
	MaxPre   int     `json:"max_preempt"` // -1 unbounded
}

func (p c03Prog) String() string {
	var sb strings.Builder
	sb.WriteString("prelude[" + history{Ops: p.Prelude}.String() + "]")
	for i, t := range p.Threads {
		sb.WriteString(fmt.Sprintf(" T%d[%s]", i, history{Ops: t}.String()))
	}
	sb.WriteString(" epilogue[" + history{Ops: p.Epilogue}.String() + "]")
	return sb.String()
}

// flat numbering: prelude, thread 0, thread 1, ..., epilogue.
func (p c03Prog) flat() (ops []hop, threadStart []int, epiStart int) {
	ops = append(ops, p.Prelude...)
	for _, t := range p.Threads {
		threadStart = append(threadStart, len(ops))
		ops = append(ops, t...)
	}
	epiStart = len(ops)
	ops = append(ops, p.Epilogue...)
	return
}

// outcomeKey renders per-session emission sequences canonically.
func outcomeKey(per map[string][]string) string {
	keys := make([]string, 0, len(per))
	for k := range per {
		keys = append(keys, k)
	}
	sort.Strings(keys)
	var sb strings.Builder
	for _, k := range keys {
		sb.WriteString(k + ":[" + strings.Join(per[k], " ") + "];")
	}
	return sb.String()
}

// sequentialOutcomes runs every interleaving of the threads' op sequences that
// respects program order SEQUENTIALLY against a fresh instance of the real
// tracker and returns the set of outcomes. The property is atomicity: a
// concurrent run must produce what some sequential ordering of the same
// deliveries produces — with the same implementation. (Whether the sequential
// behaviour itself is right is decided by C01/C02/C04/C09 against M-CORR.)
func sequentialOutcomes(p c03Prog) map[string]bool {
	_, starts, epi := p.flat()
	out := map[string]bool{}
	idx := make([]int, len(p.Threads))
	order := make([]int, 0, epi)
	var rec func()
	rec = func() {
		doneAll := true
		for t := range p.Threads {
			if idx[t] < len(p.Threads[t]) {
				doneAll = false
				order = append(order, starts[t]+idx[t])
				idx[t]++
				rec()
				idx[t]--
				order = order[:len(order)-1]
			}
		}
		if !doneAll {
			return
		}
		in := newC03Instance(p, false)
		in.runSequentialPart(false)
		for _, i := range order {
			in.do(i)
		}
		in.runSequentialPart(true)
		out[in.observed()] = true
	}
	rec()
	return out
}

var (
	seqCacheMu sync.Mutex
	seqCache   = map[string]map[string]bool{}
)

func cachedSequentialOutcomes(p c03Prog) map[string]bool {
	k := p.String()
	seqCacheMu.Lock()
	defer seqCacheMu.Unlock()
	if v, ok := seqCache[k]; ok {
		return v
	}
	v := sequentialOutcomes(p)
	if len(seqCache) > 5000 {
		seqCache = map[string]map[string]bool{}
	}
	seqCache[k] = v
	return v
}

// c03Instance is one fresh execution of a program against a real tracker.
type c03Instance struct {
	p      c03Prog
	ops    []hop
	rec    *Rec
	tr     trackerAPI
	logins map[string]int // identityKey -> op id of the login
	errs   []error
	mu     sync.Mutex
}

func newC03Instance(p c03Prog, yieldAtEncode bool) *c03Instance {
	in := &c03Instance{p: p, rec: &Rec{}, logins: map[string]int{}}
	if yieldAtEncode {
		in.rec.Hook = coopYield
	}
	in.ops, _, _ = p.flat()
	in.tr = sessiontracker.NewSessionTracker(newWriter(in.rec), vhLogger)
	for i, o := range in.ops {
		if o.K == "login" {
			in.logins[identityKey(loginFor(i, o).Source)] = i
		}
	}
	return in
}

func (in *c03Instance) do(i int) {
	o := in.ops[i]
	var err error
	switch o.K {
	case "login":
		err = in.tr.RemoteLogin(loginFor(i, o))
	case "open", "ev", "disp", "noise":
		err = in.tr.AuditdEvent(apiEvent(i, o))
	case "clean":
		cut := time.Unix(1, 0)
		if o.Cut >= farFuture {
			cut = time.Now().Add(24 * time.Hour)
		}
		in.tr.DeleteUsersWithoutLoginsBefore(cut)
		in.tr.DeleteRemoteUserLoginsBefore(cut)
	}
	if err != nil {
		in.mu.Lock()
		in.errs = append(in.errs, fmt.Errorf("op %d (%s): %w", i, o, err))
		in.mu.Unlock()
	}
}

func (in *c03Instance) threadFns() []func() {
	_, starts, _ := in.p.flat()
	fns := make([]func(), len(in.p.Threads))
	for t := range in.p.Threads {
		t := t
		fns[t] = func() {
			for k := range in.p.Threads[t] {
				in.do(starts[t] + k)
			}
		}
	}
	return fns
}

func (in *c03Instance) observed() string {
	per := map[string][]string{}
	for _, e := range in.rec.Events() {
		li, ok := in.logins[identityKey(e.Ev)]
		who := fmt.Sprint(li)
		if !ok {
			who = "?"
		}
		per[e.Ev.Metadata.AuditID] = append(per[e.Ev.Metadata.AuditID], fmt.Sprintf("%d@%s", opIndexOf(e.Ev.LoggedAt), who))
	}
	return outcomeKey(per)
}

// evaluate compares the observed per-session emissions with the sequential outcomes.
func (in *c03Instance) evaluate(res coopResult) error {
	if res.Deadlock {
		return fmt.Errorf("deadlock: %s program %s schedule %v", res.DeadlockMsg, in.p, res.Trace)
	}
	if len(in.errs) > 0 {
		return fmt.Errorf("operation failed: %v; program %s", in.errs[0], in.p)
	}
	got := in.observed()
	want := cachedSequentialOutcomes(in.p)
	if !want[got] {
		// an implementation whose sequential behaviour is not a function of the
		// call sequence alone (object pools, map iteration order) has several
		// sequential outcomes per ordering: sample the reference a few more times
		// before calling the concurrent outcome impossible
		for i := 0; i < 4 && !want[got]; i++ {
			for k := range sequentialOutcomes(in.p) {
				want[k] = true
			}
		}
	}
	if !want[got] {
		alts := make([]string, 0, len(want))
		for k := range want {
			alts = append(alts, k)
		}
		sort.Strings(alts)
		if len(alts) > 6 {
			alts = alts[:6]
		}
		return fmt.Errorf("emissions under schedule %v equal no sequential ordering of the same deliveries:\n observed %q\n sequential outcomes (%d): %q\n program %s", res.Trace, got, len(want), alts, in.p)
	}
	return nil
}

func (in *c03Instance) runSequentialPart(epilogue bool) {
	_, _, epi := in.p.flat()
	if !epilogue {
		for i := range in.p.Prelude {
			in.do(i)
		}
		return
	}
	for i := epi; i < len(in.ops); i++ {
		in.do(i)
	}
}

// execC03 runs one (program, schedule) pair under the cooperative scheduler.
func execC03(c c03Case) Outcome {
	in := newC03Instance(c.Prog, true)
	in.runSequentialPart(false)
	choose := func(k, n int) int {
		if len(c.Schedule) == 0 {
			return 0
		}
		return c.Schedule[k%len(c.Schedule)] % n
	}
	res := runSchedule(in.threadFns(), choose, c.MaxPre)
	if res.Inconcl != "" {
		panic(&infraError{res.Inconcl})
	}
	if !res.Deadlock {
		in.runSequentialPart(true)
	}
	if err := in.evaluate(res); err != nil {
		return Outcome{Err: err}
	}
	labels := []string{fmt.Sprintf("threads:%d", len(c.Prog.Threads)), fmt.Sprintf("preemptions:%d", imin(res.Preemptions, 5))}
	return Outcome{NT: res.Preemptions >= 1, Labels: labels}
}

// ---------------------------------------------------------------------------
// program shapes

func progLoginVsOpen(followUps int, disp bool) c03Prog {
	b := []hop{{K: "open", S: 1, P: 1}}
	for i := 0; i < followUps; i++ {
		b = append(b, hop{K: "ev", S: 1, T: "USER_START"})
	}
	p := c03Prog{Threads: [][]hop{{{K: "login", P: 1}}, b}}
	if disp {
		p.Threads[1] = append(p.Threads[1], hop{K: "disp", S: 1})
	} else {
		p.Epilogue = []hop{{K: "ev", S: 1, T: "USER_END"}}
	}
	return p
}

func fixedPrograms() []c03Prog {
	var ps []c03Prog
	// 2 threads: login || LOGIN record + follow-ups
	ps = append(ps, progLoginVsOpen(0, false), progLoginVsOpen(1, false), progLoginVsOpen(2, false), progLoginVsOpen(1, true))
	// 3 threads: + events of another, pre-bound session
	p := progLoginVsOpen(1, false)
	p.Prelude = []hop{{K: "login", P: 2}, {K: "open", S: 2, P: 2}}
	p.Threads = append(p.Threads, []hop{{K: "ev", S: 2, T: "CRED_ACQ"}, {K: "ev", S: 2, T: "USER_CMD"}})
	p.Epilogue = append(p.Epilogue, hop{K: "ev", S: 2, T: "USER_END"})
	ps = append(ps, p)
	// 3 threads: + cleanup (far past)
	p = progLoginVsOpen(1, false)
	p.Threads = append(p.Threads, []hop{{K: "clean", Cut: -1}})
	ps = append(ps, p)
	// 3 threads: + cleanup (far future: may legitimately discard a pending half)
	p = progLoginVsOpen(1, false)
	p.Threads = append(p.Threads, []hop{{K: "clean", Cut: farFuture}})
	ps = append(ps, p)
	// 3 threads: two sessions binding concurrently
	p = c03Prog{Threads: [][]hop{
		{{K: "login", P: 1}, {K: "login", P: 2}},
		{{K: "open", S: 1, P: 1}, {K: "ev", S: 1, T: "USER_START"}},
		{{K: "open", S: 2, P: 2}, {K: "ev", S: 2, T: "USER_START"}},
	}, Epilogue: []hop{{K: "ev", S: 1, T: "USER_END"}, {K: "ev", S: 2, T: "USER_END"}}}
	ps = append(ps, p)
	// 4 threads: login || LOGIN record+follow-up || other session's events || cleanup
	p = progLoginVsOpen(1, false)
	p.Prelude = []hop{{K: "login", P: 2}, {K: "open", S: 2, P: 2}}
	p.Threads = append(p.Threads, []hop{{K: "ev", S: 2, T: "CRED_ACQ"}}, []hop{{K: "clean", Cut: -1}})
	p.Epilogue = append(p.Epilogue, hop{K: "ev", S: 2, T: "USER_END"})
	ps = append(ps, p)
	// cleanup racing with traffic of another session while a stale half is pending;
	// the pending session's login only arrives afterwards
	p = c03Prog{Prelude: []hop{{K: "login", P: 2}, {K: "open", S: 2, P: 2}, {K: "open", S: 1, P: 1}},
		Threads:  [][]hop{{{K: "clean", Cut: farFuture}}, {{K: "ev", S: 2, T: "USER_START"}, {K: "ev", S: 2, T: "CRED_ACQ"}}},
		Epilogue: []hop{{K: "login", P: 1}, {K: "ev", S: 1, T: "USER_END"}}}
	ps = append(ps, p)
	// a stale login (its connection never got a session) waits under the pid; the
	// cleanup that removes it races with the LOGIN record of a new process with
	// that pid, whose own login line only arrives afterwards
	p = c03Prog{Prelude: []hop{{K: "login", P: 1}},
		Threads:  [][]hop{{{K: "clean", Cut: farFuture}}, {{K: "open", S: 1, P: 1}, {K: "ev", S: 1, T: "USER_START", P: 1}}},
		Epilogue: []hop{{K: "login", P: 1}, {K: "ev", S: 1, T: "USER_END", P: 1}}}
	ps = append(ps, p)
	// 2 threads: held events flushed by the login while more events arrive
	p = c03Prog{Prelude: []hop{{K: "open", S: 1, P: 1}, {K: "ev", S: 1, T: "USER_START"}},
		Threads:  [][]hop{{{K: "login", P: 1}}, {{K: "ev", S: 1, T: "CRED_ACQ"}, {K: "ev", S: 1, T: "USER_CMD"}}},
		Epilogue: []hop{{K: "ev", S: 1, T: "USER_END"}}}
	ps = append(ps, p)
	return ps
}

// TestC03_DFS explores all schedules (within the budget) of the fixed program
// shapes; a program whose schedule tree is exhausted is reported exhaustive.
func TestC03_DFS(t *testing.T) {
	step := "c03.dfs"
	si, sn := shard()
	budget := envInt("VERIF_SCHED_BUDGET", 20000)
	if replayMode() {
		var c c03Case
		mine, err := loadReplay(step, &c)
		if !mine {
			t.Skip()
		}
		if err != nil {
			t.Fatal(err)
		}
		o := safeExec(execC03, c)
		if o.Err != nil {
			writeFail(step, c, o.Err)
			t.Fatalf("REPLAY-FAIL step=%s: %v", step, o.Err)
		}
		return
	}
	allExhausted := true
	for pi, p := range fixedPrograms() {
		if pi%sn != si {
			continue
		}
		p := p
		var lastIn *c03Instance
		nt := 0
		mk := func() ([]func(), func(coopResult) error) {
			in := newC03Instance(p, true)
			lastIn = in
			in.runSequentialPart(false)
			return in.threadFns(), func(res coopResult) error {
				if !res.Deadlock {
					in.runSequentialPart(true)
				}
				err := in.evaluate(res)
				c := c03Case{Prog: p, Schedule: res.Choices, MaxPre: -1}
				record(step, c, Outcome{NT: res.Preemptions >= 1, Labels: []string{fmt.Sprintf("threads:%d", len(p.Threads))}})
				if res.Preemptions >= 1 {
					nt++
				}
				return err
			}
		}
		runs, exhausted, err, res := dfsSchedules(mk, -1, budget)
		_ = lastIn
		if ie, ok := err.(*infraError); ok {
			infraExit(ie.msg)
		}
		if err != nil {
			c := c03Case{Prog: p, Schedule: res.Choices, MaxPre: -1}
			writeFail(step, c, err)
			t.Errorf("step=%s: %v", step, err)
			return
		}
		note := fmt.Sprintf("program %d (%d threads): %d schedules, exhaustive=%v", pi, len(p.Threads), runs, exhausted)
		if !exhausted {
			allExhausted = false
			// bounded-preemption completion for the part the budget did not reach
			runs2, ex2, err2, res2 := dfsSchedules(mk, 3, budget)
			if ie, ok := err2.(*infraError); ok {
				infraExit(ie.msg)
			}
			if err2 != nil {
				c := c03Case{Prog: p, Schedule: res2.Choices, MaxPre: 3}
				writeFail(step, c, err2)
				t.Errorf("step=%s: %v", step, err2)
				return
			}
			note += fmt.Sprintf("; preemption bound 3: %d schedules, exhaustive within bound=%v", runs2, ex2)
		}
		addNote(step, note)
		addExtra(step, "schedules", runs)
	}
	setExhaustive(step, allExhausted)
}

// rapid-drawn program families x random schedules --------------------------

func genC03Prog(rt *rapid.T) c03Prog {
	p := c03Prog{}
	// session 1 / pid 1 is the racing pair
	a := []hop{{K: "login", P: 1}}
	b := []hop{{K: "open", S: 1, P: 1}}
	for i := rapid.IntRange(0, 2).Draw(rt, "fu"); i > 0; i-- {
		b = append(b, hop{K: "ev", S: 1, T: pick(rt, "t", evTypeNames)})
	}
	dispInThread := rapid.IntRange(0, 3).Draw(rt, "disp") == 0
	if dispInThread {
		b = append(b, hop{K: "disp", S: 1})
	}
	if rapid.IntRange(0, 3).Draw(rt, "heldfirst") == 0 {
		// the LOGIN record (and an event) arrived earlier; the login races with more events
		p.Prelude = append(p.Prelude, b[0])
		b = b[1:]
		if len(b) == 0 {
			b = []hop{{K: "ev", S: 1, T: "USER_START"}}
		}
	}
	p.Threads = [][]hop{a, b}
	if !dispInThread {
		p.Epilogue = append(p.Epilogue, hop{K: "ev", S: 1, T: "USER_END"})
	}
	switch rapid.IntRange(0, 3).Draw(rt, "third") {
	case 1: // events of a pre-bound session
		p.Prelude = append(p.Prelude, hop{K: "login", P: 2}, hop{K: "open", S: 2, P: 2})
		c := []hop{}
		for i := rapid.IntRange(1, 2).Draw(rt, "nc"); i > 0; i-- {
			c = append(c, hop{K: "ev", S: 2, T: pick(rt, "tc", evTypeNames)})
		}
		p.Threads = append(p.Threads, c)
		p.Epilogue = append(p.Epilogue, hop{K: "ev", S: 2, T: "USER_END"})
	case 2: // a second pair binding concurrently
		p.Threads[0] = append(p.Threads[0], hop{K: "login", P: 2})
		p.Threads = append(p.Threads, []hop{{K: "open", S: 2, P: 2}, {K: "ev", S: 2, T: "USER_START"}})
		p.Epilogue = append(p.Epilogue, hop{K: "ev", S: 2, T: "USER_END"})
	case 3: // second login on its own thread
		p.Threads = append(p.Threads, []hop{{K: "login", P: 2}}, []hop{{K: "open", S: 2, P: 2}})
		p.Epilogue = append(p.Epilogue, hop{K: "ev", S: 2, T: "USER_END"})
	}
	if rapid.IntRange(0, 7).Draw(rt, "stalelogin") == 5 {
		// a stale waiting login for pid 3, a cleanup racing with the LOGIN record of a
		// new process with that pid; the new login arrives in the epilogue
		p.Prelude = append(p.Prelude, hop{K: "login", P: 3})
		p.Threads = append(p.Threads, []hop{{K: "clean", Cut: farFuture}}, []hop{{K: "open", S: 3, P: 3}, {K: "ev", S: 3, T: "USER_START", P: 3}})
		p.Epilogue = append(p.Epilogue, hop{K: "login", P: 3}, hop{K: "ev", S: 3, T: "USER_END", P: 3})
		if len(p.Threads) > 4 {
			p.Threads = p.Threads[len(p.Threads)-4:]
		}
		return p
	}
	if rapid.IntRange(0, 5).Draw(rt, "stalecleanup") == 3 {
		// a stale pending half (session 3) that only a cleanup thread can remove; its
		// login arrives in the epilogue
		p.Prelude = append(p.Prelude, hop{K: "open", S: 3, P: 3})
		p.Threads = append(p.Threads, []hop{{K: "clean", Cut: farFuture}})
		p.Epilogue = append(p.Epilogue, hop{K: "login", P: 3}, hop{K: "ev", S: 3, T: "USER_END"})
		return p
	}
	if rapid.IntRange(0, 2).Draw(rt, "cleanup") == 0 && len(p.Threads) < 4 {
		cut := -1
		if rapid.IntRange(0, 2).Draw(rt, "future") == 0 {
			cut = farFuture
		}
		p.Threads = append(p.Threads, []hop{{K: "clean", Cut: cut}})
	}
	return p
}

func genC03(rt *rapid.T) c03Case {
	c := c03Case{Prog: genC03Prog(rt), MaxPre: -1}
	c.Schedule = rapid.SliceOfN(rapid.IntRange(0, 3), 0, 40).Draw(rt, "schedule")
	if rapid.IntRange(0, 3).Draw(rt, "bounded") == 0 {
		c.MaxPre = rapid.IntRange(1, 3).Draw(rt, "maxpre")
	}
	return c
}

func TestC03_Random(t *testing.T) { RunProp(t, "c03.random", genC03, execC03) }

// free-running mode under the race detector ---------------------------------

type c03FreeCase struct {
	Prog c03Prog `json:"prog"`
	Seed uint64  `json:"seed"`
	Reps int     `json:"reps"`
}

func execC03Free(c c03FreeCase) Outcome {
	coopMu.Lock()
	defer coopMu.Unlock()
	fr := &freeRun{state: c.Seed}
	common.VerifSchedHook = fr.hook
	defer func() { common.VerifSchedHook = nil }()
	for r := 0; r < c.Reps; r++ {
		in := newC03Instance(c.Prog, false)
		in.rec.Hook = func() { fr.hook(nil, 0) }
		in.runSequentialPart(false)
		var wg sync.WaitGroup
		start := make(chan struct{})
		for _, fn := range in.threadFns() {
			fn := fn
			wg.Add(1)
			go func() {
				defer wg.Done()
				<-start
				fn()
			}()
		}
		close(start)
		doneCh := make(chan struct{})
		go func() { wg.Wait(); close(doneCh) }()
		select {
		case <-doneCh:
		case <-time.After(20 * time.Second):
			// slow machine or deadlock? A deadlock shows as tracker goroutines parked on
			// a mutex; otherwise keep waiting (a time-out alone is never a violation).
			dump := goroutineDump("sessiontracker")
			if strings.Contains(dump, "sync.(*Mutex).Lock") || strings.Contains(dump, "sync.runtime_SemacquireMutex") {
				select {
				case <-doneCh: // it was only slow after all
				case <-time.After(10 * time.Second):
					return fail("deadlock: concurrent deliveries parked on a mutex for 30s; program %s\n%s", c.Prog, dump)
				}
			} else {
				select {
				case <-doneCh:
				case <-time.After(5 * time.Minute):
					panic(&infraError{"free-running deliveries did not return within 5 minutes (no mutex wait visible)"})
				}
			}
		}
		in.runSequentialPart(true)
		if err := in.evaluate(coopResult{}); err != nil {
			return Outcome{Err: fmt.Errorf("free-running repetition %d: %w", r, err)}
		}
	}
	return Outcome{NT: true, Labels: []string{fmt.Sprintf("threads:%d", len(c.Prog.Threads))}}
}

func TestC03_Free(t *testing.T) {
	RunProp(t, "c03.free", func(rt *rapid.T) c03FreeCase {
		reps := 10
		if thorough() {
			reps = 20
		}
		return c03FreeCase{Prog: genC03Prog(rt), Seed: rapid.Uint64().Draw(rt, "seed"), Reps: reps}
	}, execC03Free)
}


// C16 under concurrency (free-running goroutines): a cleanup call that
// coincides with other traffic still discards the stale pending half.
func execC16Conc(c c03FreeCase) Outcome {
	coopMu.Lock()
	defer coopMu.Unlock()
	fr := &freeRun{state: c.Seed}
	common.VerifSchedHook = fr.hook
	defer func() { common.VerifSchedHook = nil }()
	p := c03Prog{Prelude: []hop{{K: "login", P: 2}, {K: "open", S: 2, P: 2}, {K: "open", S: 1, P: 1}},
		Threads:  [][]hop{{{K: "clean", Cut: farFuture}}, {{K: "ev", S: 2, T: "USER_START"}, {K: "ev", S: 2, T: "CRED_ACQ"}, {K: "ev", S: 2, T: "USER_CMD"}}},
		Epilogue: []hop{{K: "login", P: 1}, {K: "ev", S: 1, T: "USER_END"}}}
	for r := 0; r < c.Reps; r++ {
		in := newC03Instance(p, false)
		// the sink is slow for the other session's events: the tracker is busy for a while
		in.rec.Hook = func() { time.Sleep(time.Duration(fr.next()%300) * time.Microsecond) }
		in.runSequentialPart(false)
		var wg sync.WaitGroup
		start := make(chan struct{})
		fns := in.threadFns()
		for ti, fn := range fns {
			fn := fn
			ti := ti
			wg.Add(1)
			go func() {
				defer wg.Done()
				<-start
				if ti == 0 {
					time.Sleep(time.Duration(fr.next()%400) * time.Microsecond) // the cleanup tick lands somewhere in the traffic
				}
				fn()
			}()
		}
		close(start)
		wg.Wait()
		in.runSequentialPart(true)
		for _, e := range in.rec.Events() {
			if e.Ev.Metadata.AuditID == sesString(1) {
				return fail("repetition %d: the pending session was older than the cut-off of a cleanup call that ran concurrently with other traffic, yet its late login released the held events (op %d emitted): the cleanup was skipped or ineffective", r, opIndexOf(e.Ev.LoggedAt))
			}
		}
	}
	return Outcome{NT: true}
}

func TestC16_Conc(t *testing.T) {
	RunProp(t, "c16.conc", func(rt *rapid.T) c03FreeCase {
		return c03FreeCase{Seed: rapid.Uint64().Draw(rt, "seed"), Reps: 30}
	}, execC16Conc)
}
