package vh

import (
	"bytes"
	"context"
	"errors"
	"fmt"
	"os"
	"path/filepath"
	"runtime"
	"sync"
	"syscall"
	"testing"
	"time"

	"go.uber.org/zap"
	"pgregory.net/rapid"

	"github.com/metal-toolbox/audito-maldito/ingesters/namedpipe"
	"github.com/metal-toolbox/audito-maldito/internal/health"
)

// C12 — pipe framing through a real FIFO.

type c12Case struct {
	Delim   byte     `json:"delim"`
	Records [][]byte `json:"records"` // content without the delimiter
	Tail    []byte   `json:"tail"`    // unterminated bytes after the last delimiter
	Chunks  []int    `json:"chunks"`  // sizes of the write(2) calls (sum = stream length)
	Pauses  []int    `json:"pauses"`  // per write: 0 none, 1 Gosched, n>1 sleep n microseconds
	ErrAt   int      `json:"err_at"`  // callback index that returns an error; -1 = none
}

var errCallback = errors.New("verif: injected callback error")

func patternBytes(n int, seed byte, delim byte) []byte {
	b := make([]byte, n)
	x := uint32(seed)*2654435761 + 12345
	for i := range b {
		x = x*1664525 + 1013904223
		c := byte(x >> 24)
		if c == delim {
			c ^= 0x55
			if c == delim {
				c++
			}
		}
		b[i] = c
	}
	return b
}

func genC12(rt *rapid.T) c12Case {
	delim := rapid.SampledFrom([]byte{'\n', '\n', '\n', 0, ';', 0xff}).Draw(rt, "delim")
	nrec := rapid.IntRange(0, 10).Draw(rt, "nrec")
	c := c12Case{Delim: delim, ErrAt: -1}
	genBytes := func(label string) []byte {
		kind := rapid.IntRange(0, 9).Draw(rt, label+"kind")
		switch {
		case kind == 0:
			return []byte{}
		case kind <= 4:
			b := rapid.SliceOfN(rapid.Byte(), 1, 24).Draw(rt, label+"small")
			for i := range b {
				if b[i] == delim {
					b[i] ^= 0x20
					if b[i] == delim {
						b[i]++
					}
				}
			}
			return b
		case kind <= 6:
			n := rapid.SampledFrom([]int{4094, 4095, 4096, 4097, 8191, 8192, 8193}).Draw(rt, label+"edge")
			return patternBytes(n, rapid.Byte().Draw(rt, label+"seed"), delim)
		default:
			n := rapid.IntRange(25, 3*4096+64).Draw(rt, label+"len")
			if rapid.IntRange(0, 11).Draw(rt, label+"huge") == 7 {
				// many internal buffers long (beyond 64 KiB as well)
				n = rapid.SampledFrom([]int{20 * 4096, 65535, 65536, 65537, 70000, 131072 + 5}).Draw(rt, label+"hugelen")
			}
			return patternBytes(n, rapid.Byte().Draw(rt, label+"seed"), delim)
		}
	}
	for i := 0; i < nrec; i++ {
		c.Records = append(c.Records, genBytes(fmt.Sprintf("r%d", i)))
	}
	if rapid.Bool().Draw(rt, "hasTail") {
		c.Tail = genBytes("tail")
	}
	total := len(c.Tail)
	for _, r := range c.Records {
		total += len(r) + 1
	}
	mode := rapid.IntRange(0, 4).Draw(rt, "chunkmode")
	switch {
	case total == 0:
	case mode == 0 && total <= 3000: // byte at a time
		for i := 0; i < total; i++ {
			c.Chunks = append(c.Chunks, 1)
		}
	case mode == 1: // everything at once
		c.Chunks = []int{total}
	case mode == 2: // small random chunks (bounded number of writes)
		left := total
		max := total/200 + 7
		for left > 0 {
			n := rapid.IntRange(1, max).Draw(rt, "chunk")
			if n > left {
				n = left
			}
			c.Chunks = append(c.Chunks, n)
			left -= n
		}
	default: // large random chunks
		left := total
		for left > 0 {
			n := rapid.IntRange(1, 9000).Draw(rt, "chunk")
			if n > left {
				n = left
			}
			c.Chunks = append(c.Chunks, n)
			left -= n
		}
	}
	// pauses: at most 12 sleeping writes per case
	sleeps := 0
	for range c.Chunks {
		p := 0
		if len(c.Chunks) <= 400 || rapid.IntRange(0, 20).Draw(rt, "pz") == 0 {
			switch rapid.IntRange(0, 5).Draw(rt, "pk") {
			case 0, 1, 2:
				p = 0
			case 3, 4:
				p = 1
			default:
				if sleeps < 12 {
					p = rapid.IntRange(50, 2000).Draw(rt, "us")
					sleeps++
				}
			}
		}
		c.Pauses = append(c.Pauses, p)
	}
	if nrec > 0 && rapid.IntRange(0, 3).Draw(rt, "inject") == 0 {
		c.ErrAt = rapid.IntRange(0, nrec-1).Draw(rt, "errAt")
	}
	return c
}

func mkfifoDir() (dir, path string, err error) {
	dir, err = os.MkdirTemp("", "vhfifo")
	if err != nil {
		return "", "", err
	}
	path = filepath.Join(dir, "p")
	if err = syscall.Mkfifo(path, 0o600); err != nil {
		os.RemoveAll(dir)
		return "", "", err
	}
	return dir, path, nil
}

func execC12(c c12Case) Outcome {
	dir, path, err := mkfifoDir()
	if err != nil {
		panic(&infraError{err.Error()})
	}
	defer os.RemoveAll(dir)

	stream := []byte{}
	for _, r := range c.Records {
		stream = append(stream, r...)
		stream = append(stream, c.Delim)
	}
	stream = append(stream, c.Tail...)

	var mu sync.Mutex
	var got []string
	overflow := make(chan struct{})
	var overflowOnce sync.Once
	cb := func(_ context.Context, s string) error {
		mu.Lock()
		defer mu.Unlock()
		got = append(got, s)
		if len(got) > len(c.Records)+8 {
			overflowOnce.Do(func() { close(overflow) })
			return errors.New("verif: too many callbacks")
		}
		if c.ErrAt >= 0 && len(got)-1 == c.ErrAt {
			return errCallback
		}
		return nil
	}

	ctx, cancel := context.WithCancel(context.Background())
	defer cancel()
	h := health.NewHealth()
	ing := namedpipe.NewNamedPipeIngester(zap.NewNop().Sugar(), h)
	done := make(chan error, 1)
	go func() { done <- ing.Ingest(ctx, path, c.Delim, cb) }()

	wdone := make(chan struct{})
	go func() {
		defer close(wdone)
		w, err := os.OpenFile(path, os.O_WRONLY, 0)
		if err != nil {
			return
		}
		defer w.Close()
		off := 0
		for i, n := range c.Chunks {
			if off+n > len(stream) {
				n = len(stream) - off
			}
			if n <= 0 {
				break
			}
			if _, err := w.Write(stream[off : off+n]); err != nil {
				return // reader gone (callback error case)
			}
			off += n
			if i < len(c.Pauses) {
				switch p := c.Pauses[i]; {
				case p == 1:
					runtime.Gosched()
				case p > 1:
					time.Sleep(time.Duration(p) * time.Microsecond)
				}
			}
		}
	}()

	var ret error
	select {
	case ret = <-done:
	case <-time.After(10 * time.Second):
		// The writer closes after its last write; EOF must end Ingest. Not
		// returning long after that is a violation of "end-of-stream is
		// returned as an error rather than ignored".
		select {
		case <-wdone:
			cancel()
			// unblock a still-pending open in Ingest, if any
			return fail("Ingest did not return within 10s after the writer closed the pipe (%d callbacks so far)", len(got))
		default:
			cancel()
			panic(&infraError{"writer did not finish within 10s"})
		}
	}
	cancel()
	// Make sure the writer is released (it may be blocked in open if Ingest
	// returned before opening, which it cannot without a context cancel).
	select {
	case <-wdone:
	case <-time.After(5 * time.Second):
		// open the read side briefly to release a blocked writer
		if f, err := os.OpenFile(path, os.O_RDONLY|syscall.O_NONBLOCK, 0); err == nil {
			f.Close()
		}
		<-wdone
	}

	mu.Lock()
	defer mu.Unlock()

	nt := false
	labels := []string{}
	{
		// classification: record split across writes / longer than 4096 / several records in a write
		pos := 0
		bounds := []int{} // stream offsets where a write ends
		for _, n := range c.Chunks {
			pos += n
			bounds = append(bounds, pos)
		}
		start := 0
		for _, r := range c.Records {
			end := start + len(r) + 1
			for _, b := range bounds {
				if b > start && b < end {
					nt = true
					labels = append(labels, "record_split_across_writes")
					break
				}
			}
			if len(r) > 4096 {
				nt = true
				labels = append(labels, "record_gt_4096")
			}
			start = end
		}
		prev := 0
		for _, b := range bounds {
			if b > len(stream) {
				b = len(stream)
			}
			if bytes.Count(stream[prev:b], []byte{c.Delim}) >= 2 {
				nt = true
				labels = append(labels, "several_records_in_one_write")
				break
			}
			prev = b
		}
		if c.ErrAt >= 0 {
			labels = append(labels, "callback_error_injected")
		}
		if len(c.Tail) > 0 {
			labels = append(labels, "unterminated_tail")
		}
		if len(c.Chunks) > 0 && len(c.Chunks) == len(stream) {
			labels = append(labels, "byte_at_a_time")
		}
		labels = dedup(labels)
	}

	select {
	case <-overflow:
		return fail("callback invoked %d times for %d records", len(got), len(c.Records))
	default:
	}

	want := len(c.Records)
	if c.ErrAt >= 0 {
		want = c.ErrAt + 1
	}
	if len(got) != want {
		return fail("callbacks=%d want %d (records=%d errAt=%d tail=%d)", len(got), want, len(c.Records), c.ErrAt, len(c.Tail))
	}
	for i := range got {
		rec := string(c.Records[i])
		if got[i] != rec && got[i] != rec+string([]byte{c.Delim}) {
			return fail("callback %d: got %d bytes %q..., want record of %d bytes %q...", i, len(got[i]), head(got[i]), len(rec), head(rec))
		}
	}
	if c.ErrAt >= 0 {
		if ret != errCallback { //nolint:errorlint // the statement says "returned unchanged"
			return fail("callback error at %d: Ingest returned %v, want the callback's error unchanged", c.ErrAt, ret)
		}
	} else if ret == nil {
		return fail("writer closed the pipe: Ingest returned nil, want a non-nil error")
	} else if errors.Is(ret, context.Canceled) {
		return fail("writer closed the pipe: Ingest returned %v before any cancellation", ret)
	}
	return Outcome{NT: nt, Labels: labels}
}

func head(s string) string {
	if len(s) > 24 {
		return s[:24]
	}
	return s
}

func dedup(a []string) []string {
	seen := map[string]bool{}
	out := a[:0]
	for _, x := range a {
		if !seen[x] {
			seen[x] = true
			out = append(out, x)
		}
	}
	return out
}

func TestC12_Framing(t *testing.T) {
	RunProp(t, "c12.framing", genC12, execC12)
}


// TestC12_LongPause: "arbitrary pauses" includes pauses far longer than any
// polling interval an implementation might use (read deadlines, timeouts). A
// handful of cases with one long pause inside a record / between records.
func TestC12_LongPause(t *testing.T) {
	pauses := []int{1100, 2100}
	if thorough() {
		pauses = []int{1100, 2100, 3100, 5200}
	}
	si, sn := shard()
	n := 0
	RunEnum(t, "c12.longpause", func(y func(c12Case) bool) {
		for _, ms := range pauses {
			for _, inside := range []bool{true, false} {
				n++
				if n%sn != si {
					continue
				}
				c := c12Case{Delim: '\n', ErrAt: -1,
					Records: [][]byte{[]byte("first record"), patternBytes(300, byte(ms), '\n'), []byte("third")}, Tail: []byte("tail")}
				// writes: "first record\n" + 100 bytes of record 2 | rest of record 2 + "\n" | "third\n" + tail
				if inside {
					c.Chunks = []int{13 + 100, 201, 6 + 4}
					c.Pauses = []int{ms * 1000, 0, 0}
				} else {
					c.Chunks = []int{13, 301, 6 + 4}
					c.Pauses = []int{ms * 1000, 1, 0}
				}
				if !y(c) {
					return
				}
			}
		}
	}, execC12)
}
