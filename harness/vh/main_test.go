package vh

import (
	"os"
	"testing"

	"go.uber.org/zap"

	"github.com/metal-toolbox/audito-maldito/processors/auditd"
	"github.com/metal-toolbox/audito-maldito/processors/sshd"
)

func TestMain(m *testing.M) {
	l := zap.NewNop().Sugar()
	auditd.SetLogger(l)
	sshd.SetLogger(l)
	code := m.Run()
	flushStats()
	os.Exit(code)
}
