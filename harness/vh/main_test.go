package vh

import (
	"io"
	"os"
	"strings"
	"testing"

	"go.uber.org/zap"
	"go.uber.org/zap/zapcore"

	"github.com/metal-toolbox/audito-maldito/processors/auditd"
	"github.com/metal-toolbox/audito-maldito/processors/sshd"
)

// vhLogger is the logger handed to the code under test. Every other shard of a
// step runs with debug logging enabled (into a discarding sink), as the daemon
// does under -log-level debug: statements behind the level check are code too.
var vhLogger = zap.NewNop().Sugar()

func debugShard() bool {
	if v := os.Getenv("VERIF_DEBUG_LOG"); v != "" {
		return v == "1"
	}
	sh := os.Getenv("VERIF_SHARD") // "i/n"
	if i := strings.IndexByte(sh, '/'); i > 0 {
		last := sh[i-1]
		return (last-'0')%2 == 1
	}
	return false
}

func TestMain(m *testing.M) {
	if debugShard() {
		core := zapcore.NewCore(zapcore.NewJSONEncoder(zap.NewProductionEncoderConfig()), zapcore.AddSync(io.Discard), zapcore.DebugLevel)
		vhLogger = zap.New(core).Sugar()
	}
	auditd.SetLogger(vhLogger)
	sshd.SetLogger(vhLogger)
	code := m.Run()
	flushStats()
	os.Exit(code)
}
