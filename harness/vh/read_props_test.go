package vh

import (
	"context"
	"encoding/json"
	"errors"
	"fmt"
	"os"
	"reflect"
	"sort"
	"strconv"
	"strings"
	"sync"
	"testing"
	"time"

	"github.com/elastic/go-libaudit/v2/aucoalesce"
	"github.com/elastic/go-libaudit/v2/auparse"
	"github.com/metal-toolbox/auditevent"
	"go.uber.org/zap"
	"pgregory.net/rapid"

	"github.com/metal-toolbox/audito-maldito/ingesters/auditlog"
	"github.com/metal-toolbox/audito-maldito/ingesters/namedpipe"
	"github.com/metal-toolbox/audito-maldito/internal/common"
	"github.com/metal-toolbox/audito-maldito/internal/health"
	"github.com/metal-toolbox/audito-maldito/processors/auditd"
	"github.com/metal-toolbox/audito-maldito/processors/auditd/sessiontracker"
)

// ---------------------------------------------------------------------------
// C01 / C02 / C04 at the Read level (text through auparse + reassembler).

func readExec(step string, oracle func(corrTrace) error, nt func(histFacts) bool) func(history) Outcome {
	return retryFlaky(step, func(h history) Outcome {
		ct, _ := runHistoryRead(h, nil)
		if ct.Model.ambiguous {
			return Outcome{Skip: "ambiguous_login_match"}
		}
		if err := traceErrors(ct); err != nil {
			return Outcome{Err: err}
		}
		if err := oracle(ct); err != nil {
			return Outcome{Err: err}
		}
		f := factsOf(ct)
		return Outcome{NT: nt(f), Labels: labelsOf(f)}
	})
}

func genHistRead(rt *rapid.T) history {
	return genHistory(rt, hgenOpts{MaxLen: 30, MaxSessions: 5, Orphans: true, Cleanup: "", Strays: true})
}

func TestC01_Read(t *testing.T) {
	RunProp(t, "c01.read", genHistRead, readExec("c01.read", oracleC01, ntC01))
}
func TestC02_Read(t *testing.T) {
	RunProp(t, "c02.read", func(rt *rapid.T) history {
		return genHistory(rt, hgenOpts{MaxLen: 30, MaxSessions: 5})
	}, readExec("c02.read", oracleC02, ntC02))
}
func TestC04_Read(t *testing.T) {
	RunProp(t, "c04.read", genHistRead, readExec("c04.read", oracleC04, ntC04))
}
func TestC09_Read(t *testing.T) {
	RunProp(t, "c09.read", genReuseHistory, readExec("c09.read", oracleC09, ntC09))
}

// ---------------------------------------------------------------------------
// C14 — UserAction events faithfully render the audit event.

// expectedRendering applies the library to the same records the daemon got.
func expectedRendering(ae audEvent) (*aucoalesce.Event, error) {
	var msgs []*auparse.AuditMessage
	for _, l := range ae.Lines {
		m, err := auparse.ParseLogLine(l)
		if err != nil {
			return nil, err
		}
		msgs = append(msgs, m)
	}
	ev, err := aucoalesce.CoalesceMessages(msgs)
	if err != nil {
		return nil, err
	}
	aucoalesce.ResolveIDs(ev)
	return ev, nil
}

func jsonOf(v any) string {
	b, _ := json.Marshal(v)
	return string(b)
}

// checkRendering compares one emitted UserAction with the expected rendering.
func checkRendering(got *auditevent.AuditEvent, want *aucoalesce.Event, wantTime time.Time, wantSes string, wantSuccess bool) error {
	if got.Type != "UserAction" {
		return fmt.Errorf("type %q, want UserAction", got.Type)
	}
	if got.Component != "auditd" {
		return fmt.Errorf("component %q, want auditd", got.Component)
	}
	if !got.LoggedAt.Equal(wantTime) {
		return fmt.Errorf("loggedAt %v, want the record's timestamp %v", got.LoggedAt, wantTime)
	}
	if got.Metadata.AuditID != wantSes {
		return fmt.Errorf("auditId %q, want session %q", got.Metadata.AuditID, wantSes)
	}
	wo := auditevent.OutcomeFailed
	if wantSuccess {
		wo = auditevent.OutcomeSucceeded
	}
	if got.Outcome != wo {
		return fmt.Errorf("outcome %q, want %q", got.Outcome, wo)
	}
	ex := got.Metadata.Extra
	if jsonOf(ex["action"]) != jsonOf(want.Summary.Action) {
		return fmt.Errorf("action %s, want %s", jsonOf(ex["action"]), jsonOf(want.Summary.Action))
	}
	if jsonOf(ex["how"]) != jsonOf(want.Summary.How) {
		return fmt.Errorf("how %s, want %s", jsonOf(ex["how"]), jsonOf(want.Summary.How))
	}
	if jsonOf(ex["object"]) != jsonOf(want.Summary.Object) {
		return fmt.Errorf("object %s, want %s", jsonOf(ex["object"]), jsonOf(want.Summary.Object))
	}
	pa, has := ex["process_args"]
	if len(want.Process.Args) > 0 {
		if !has {
			return fmt.Errorf("process_args missing, want %q", want.Process.Args)
		}
		if jsonOf(pa) != jsonOf(want.Process.Args) {
			return fmt.Errorf("process_args %s, want %s", jsonOf(pa), jsonOf(want.Process.Args))
		}
	} else if has {
		return fmt.Errorf("process_args %s present although the audit event has no arguments", jsonOf(pa))
	}
	return nil
}

type c14Case struct {
	LoginAt int        `json:"login_at"` // number of events delivered before the login arrives
	Events  []audEvent `json:"events"`   // events of one session (first is its LOGIN record)
	Other   []audEvent `json:"other"`    // events of a second correlated session, interleaved round-robin
	Weave   bool       `json:"weave,omitempty"` // records of consecutive events arrive interleaved (concurrent syscalls), each event's own records in order
}

func genC14(rt *rapid.T) c14Case {
	n := rapid.IntRange(1, 12).Draw(rt, "n")
	c := c14Case{}
	idx := 0
	// kernel timestamps may lie in the future relative to the daemon's clock
	// (clock skew between hosts, replayed logs)
	tsBase := 0
	if rapid.IntRange(0, 3).Draw(rt, "future") == 0 {
		tsBase = 400000000000 // about 12.7 years after evBase
	}
	mk := func(typ, ses, pid string) audEvent {
		idx++
		return buildAudEvent(typ, tsBase+idx, 5000+idx, genAudFields(rt, typ, ses, pid))
	}
	c.Events = append(c.Events, mk("LOGIN", sesString(1), strconv.Itoa(pidValue(1))))
	types := []string{"SYSCALL", "SYSCALL", "SYSCALL", "AVC_SYSCALL", "USER_START", "USER_END", "CRED_ACQ", "USER_LOGIN", "USER_CMD", "USER_ACCT", "CRED_REFR", "USER_AUTH", "USER_ERR"}
	for i := 0; i < n; i++ {
		c.Events = append(c.Events, mk(pick(rt, "typ", types), sesString(1), "900"))
	}
	if rapid.Bool().Draw(rt, "disp") {
		c.Events = append(c.Events, mk("CRED_DISP", sesString(1), "900"))
	}
	if rapid.IntRange(0, 2).Draw(rt, "other") == 0 {
		c.Other = append(c.Other, mk("LOGIN", sesString(2), strconv.Itoa(pidValue(2))))
		for i := rapid.IntRange(1, 4).Draw(rt, "no"); i > 0; i-- {
			c.Other = append(c.Other, mk(pick(rt, "typ2", types), sesString(2), "901"))
		}
	}
	c.LoginAt = rapid.IntRange(0, len(c.Events)).Draw(rt, "loginAt")
	c.Weave = rapid.IntRange(0, 2).Draw(rt, "weave") == 0
	return c
}

func execC14Read(c c14Case) Outcome {
	rig := newReadRig(nil)
	defer rig.stop()
	l1 := loginFor(0, hop{K: "login", P: 1})
	l2 := loginFor(1, hop{K: "login", P: 2})
	l1copy, l2copy := deepCopyEvent(l1.Source), deepCopyEvent(l2.Source)
	if len(c.Other) > 0 {
		if err := rig.login(l2); err != nil {
			return fail("login 2: %v %v", err, rig.exitErr)
		}
		if err := rig.loginBarrier(); err != nil {
			return fail("barrier: %v %v", err, rig.exitErr)
		}
	}
	// merge the two sessions in sequence-number order (kernel order)
	all := append(append([]audEvent{}, c.Events...), c.Other...)
	sort.Slice(all, func(i, j int) bool { return all[i].Seq < all[j].Seq })
	sent1 := 0
	loginSent := false
	sendLogin := func() error {
		loginSent = true
		if err := rig.login(l1); err != nil {
			return err
		}
		return rig.loginBarrier()
	}
	// line schedule: event by event, or (Weave) the records of each pair of
	// consecutive events alternating
	type schedLine struct {
		ev    int
		first bool
		text  string
	}
	var sched []schedLine
	for i := 0; i < len(all); i++ {
		if c.Weave && i+1 < len(all) {
			a, b := all[i].Lines, all[i+1].Lines
			for k := 0; k < len(a) || k < len(b); k++ {
				if k < len(a) {
					sched = append(sched, schedLine{i, k == 0, a[k]})
				}
				if k < len(b) {
					sched = append(sched, schedLine{i + 1, k == 0, b[k]})
				}
			}
			i++
			continue
		}
		for k, l := range all[i].Lines {
			sched = append(sched, schedLine{i, k == 0, l})
		}
	}
	for _, sl := range sched {
		if sl.first && all[sl.ev].Ses == sesString(1) {
			if !loginSent && sent1 == c.LoginAt {
				if err := sendLogin(); err != nil {
					return fail("login: %v %v", err, rig.exitErr)
				}
			}
			sent1++
		}
		if err := rig.line(sl.text); err != nil {
			return fail("Read exited while feeding a well-formed stream: %v (line %q)", rig.exitErr, sl.text)
		}
	}
	if !loginSent {
		if err := sendLogin(); err != nil {
			return fail("login: %v %v", err, rig.exitErr)
		}
	}
	if err := rig.auditBarrier(); err != nil {
		return fail("Read exited: %v", rig.exitErr)
	}
	evs := rig.rec.Events()
	byTs := map[int]*auditevent.AuditEvent{}
	genTs := map[int]bool{}
	for _, ae := range all {
		genTs[ae.TsIdx] = true
	}
	for _, e := range evs {
		i := evIndexOf(e.Ev.LoggedAt)
		if !genTs[i] || !e.Ev.LoggedAt.Equal(evTime(i)) {
			return fail("a UserAction carries loggedAt %v, which is not the timestamp of any audit record in the stream; emitted %s", e.Ev.LoggedAt, evJSON(e.Ev))
		}
		byTs[i] = e.Ev
	}
	labels := []string{}
	nt := false
	missing := 0
	firstIdentity := map[string]string{}
	perSession := map[string]int{}
	for _, ae := range all {
		want, err := expectedRendering(ae)
		if err != nil {
			panic(&infraError{"generated event does not coalesce: " + err.Error()})
		}
		got, ok := byTs[ae.TsIdx]
		if !ok {
			// whether every event is emitted is C02's/C15's concern; only the
			// rendering of what is emitted is judged here
			missing++
			continue
		}
		if err := checkRendering(got, want, evTime(ae.TsIdx), ae.Ses, ae.Success); err != nil {
			return fail("%s event seq %d: %v; records %q; emitted %s", ae.Type, ae.Seq, err, ae.Lines, evJSON(got))
		}
		// identity stability: all events of a session carry identical identity
		// content (whose identity it must be is C01's concern)
		if first, seen := firstIdentity[ae.Ses]; !seen {
			firstIdentity[ae.Ses] = identityKey(got)
		} else if identityKey(got) != first {
			return fail("%s event seq %d of session %s carries identity %s, an earlier event of the same session carried %s", ae.Type, ae.Seq, ae.Ses, identityKey(got), first)
		}
		perSession[ae.Ses]++
		if len(ae.Lines) > 1 && len(ae.Args) > 0 {
			nt = true
			labels = append(labels, "compound_with_execve")
		}
		if !ae.Success {
			nt = true
			labels = append(labels, "failing_result")
		}
		if ae.Tail {
			labels = append(labels, "enrichment_tail")
		}
		labels = append(labels, "type:"+ae.Type)
	}
	if missing > 0 {
		labels = append(labels, "some_events_not_emitted_(not_judged_here)")
	}
	if c.Weave {
		labels = append(labels, "records_of_consecutive_events_interleaved")
	}
	for _, n := range perSession {
		if n >= 5 {
			nt = true
			labels = append(labels, "session_with_5+_events")
		}
	}
	// the stored login must be unaltered by emitting events
	if evJSON(l1.Source) != evJSON(l1copy) || evJSON(l2.Source) != evJSON(l2copy) {
		return fail("the login event object was altered by emitting UserActions: now %s, was %s", evJSON(l1.Source), evJSON(l1copy))
	}
	return Outcome{NT: nt, Labels: dedup(labels)}
}

func TestC14_Read(t *testing.T) {
	RunProp(t, "c14.read", genC14, retryFlaky("c14.read", execC14Read))
}

// API level: arbitrary Summary / Args / Result values straight into the tracker.
type c14APICase struct {
	Events []c14APIEvent `json:"events"`
	Future bool          `json:"future"` // record timestamps ahead of the daemon's clock
}

type c14APIEvent struct {
	Type   string   `json:"type"`
	Result string   `json:"result"`
	Action string   `json:"action"`
	How    string   `json:"how"`
	ObjT   string   `json:"obj_type"`
	ObjP   string   `json:"obj_primary"`
	ObjS   string   `json:"obj_secondary"`
	Args   []string `json:"args"`
	Mutate bool     `json:"mutate"` // the consumer mutates the emitted event's maps afterwards
}

func genC14API(rt *rapid.T) c14APICase {
	n := rapid.IntRange(1, 10).Draw(rt, "n")
	c := c14APICase{Future: rapid.IntRange(0, 3).Draw(rt, "future") == 0}
	str := rapid.StringN(0, 12, 40)
	for i := 0; i < n; i++ {
		e := c14APIEvent{
			Type:   pick(rt, "typ", evTypeNames),
			Result: pick(rt, "res", []string{"success", "fail", "success", "", "unknown", "Success", "failed"}),
			Action: str.Draw(rt, "action"), How: str.Draw(rt, "how"),
			ObjT: str.Draw(rt, "ot"), ObjP: str.Draw(rt, "op"), ObjS: str.Draw(rt, "os"),
			Mutate: rapid.IntRange(0, 3).Draw(rt, "mut") == 0,
		}
		if rapid.Bool().Draw(rt, "hasargs") {
			e.Args = rapid.SliceOfN(str, 1, 5).Draw(rt, "args")
			if rapid.IntRange(0, 5).Draw(rt, "longarg") == 3 {
				// a long command line (sh -c '<script>')
				n := rapid.SampledFrom([]int{255, 256, 257, 300, 1024, 4000}).Draw(rt, "arglen")
				e.Args = append(e.Args, strings.Repeat("s", n))
			}
		}
		c.Events = append(c.Events, e)
	}
	return c
}

func execC14API(c c14APICase) Outcome {
	rec := &Rec{}
	tr := sessiontracker.NewSessionTracker(newWriter(rec), vhLogger)
	l := loginFor(0, hop{K: "login", P: 1})
	lcopy := deepCopyEvent(l.Source)
	if err := tr.RemoteLogin(l); err != nil {
		return fail("RemoteLogin: %v", err)
	}
	if err := tr.AuditdEvent(apiEvent(1, hop{K: "open", S: 1, P: 1})); err != nil {
		return fail("open: %v", err)
	}
	nt := len(c.Events) >= 5
	tsOf := func(i int) time.Time {
		if c.Future {
			return time.Now().Add(3*time.Hour + time.Duration(i)*time.Millisecond).UTC().Truncate(time.Millisecond)
		}
		return evTime(10 + i)
	}
	for i, e := range c.Events {
		ts := tsOf(i)
		ae := &aucoalesce.Event{Type: evTypes[e.Type], Session: sesString(1), Timestamp: ts, Result: e.Result}
		ae.Summary.Action, ae.Summary.How = e.Action, e.How
		ae.Summary.Object = aucoalesce.Object{Type: e.ObjT, Primary: e.ObjP, Secondary: e.ObjS}
		ae.Process.Args = e.Args
		before := rec.Len()
		if err := tr.AuditdEvent(ae); err != nil {
			return fail("AuditdEvent: %v", err)
		}
		evs := rec.Events()
		if len(evs) != before+1 {
			return fail("event %d: %d events emitted, want 1", i, len(evs)-before)
		}
		got := evs[len(evs)-1]
		if err := checkRendering(got.Ev, ae, ts, sesString(1), e.Result == "success"); err != nil {
			return fail("event %d (%+v): %v; emitted %s", i, e, err, evJSON(got.Ev))
		}
		if identityKey(got.Ev) != identityKey(lcopy) {
			return fail("event %d carries identity %s, want %s", i, identityKey(got.Ev), identityKey(lcopy))
		}
		if e.Mutate {
			// a consumer of the emitted event scribbles on it: later events
			// and the stored login must be unaffected
			if got.Ptr.Subjects != nil {
				got.Ptr.Subjects["loggedAs"] = "scribbled"
				got.Ptr.Subjects["extra"] = "x"
			}
			nt = true
		}
		if e.Result != "success" && e.Result != "fail" {
			nt = true
		}
	}
	if identityKey(l.Source) != identityKey(lcopy) {
		return fail("the stored login was altered: now %s, was %s", identityKey(l.Source), identityKey(lcopy))
	}
	return Outcome{NT: nt}
}

func TestC14_API(t *testing.T) { RunProp(t, "c14.api", genC14API, execC14API) }

// ---------------------------------------------------------------------------
// C15 — no audit record is skipped silently.

type c15Case struct {
	Kind    string     `json:"kind"` // interleaved | malformed | encoder_fail | bad_login_pid | invalid_login
	Events  []audEvent `json:"events"`
	Order   []int      `json:"order"`    // line schedule: index of the event whose next record is sent
	BadLine string     `json:"bad_line"` // malformed: the line
	BadAt   int        `json:"bad_at"`   // malformed: number of lines sent before it
	FailAt  int        `json:"fail_at"`  // encoder_fail: k (1-based)
	BadPID  string     `json:"bad_pid"`  // bad_login_pid: "" = field missing
	Login   string     `json:"login"`    // invalid_login: nil_source | zero_pid | negative_pid | empty_cred
	LoginAt int        `json:"login_at"`
}

var malformedLines = []string{
	"garbage", "type=SYSCALL", "type=SYSCALL msg=", "type=SYSCALL msg=audit(", "type=SYSCALL msg=audit(1700000000.123)",
	"type=SYSCALL msg=audit(abc.123:1): x=1", "type=SYSCALL msg=audit(1700000000.xyz:1): x=1", "type=SYSCALL msg=audit(1700000000.123:notanumber): x=1",
	"type=NOT_A_REAL_TYPE msg=audit(1700000000.123:5): x=1", "msg=audit(1700000000.123:5): x=1", " ", "\x00\x01\x02",
	"type=SYSCALL msg=audit(1700000000.123:99999999999): x=1", "type= msg=audit(1700000000.123:5): a=b", "audit(1700000000.123:5)",
	"type=SYSCALL msg=audit(1700000000:5): a=b",
}

func genC15(rt *rapid.T) c15Case {
	c := c15Case{Kind: pick(rt, "kind", []string{"interleaved", "interleaved", "malformed", "malformed_backlog", "encoder_fail", "encoder_fail_during_login", "bad_login_pid", "invalid_login", "invalid_login_pending_session"})}
	// a correlated session s1 (login first) with n events, up to three
	// concurrently open kernel events
	n := rapid.IntRange(2, 9).Draw(rt, "n")
	idx := 0
	mk := func(typ, ses, pid string) audEvent {
		idx++
		return buildAudEvent(typ, idx, 7000+idx, genAudFields(rt, typ, ses, pid))
	}
	c.Events = append(c.Events, mk("LOGIN", sesString(1), strconv.Itoa(pidValue(1))))
	for i := 0; i < n; i++ {
		c.Events = append(c.Events, mk(pick(rt, "typ", []string{"SYSCALL", "SYSCALL", "SYSCALL", "USER_START", "USER_CMD", "USER_END"}), sesString(1), "900"))
	}
	// schedule: the LOGIN record first, then interleave records of a window
	// of up to 3 consecutive events (each event's records in kernel order)
	c.Order = append(c.Order, 0)
	next := make([]int, len(c.Events)) // next record index per event
	next[0] = 1
	lo := 1
	for lo < len(c.Events) {
		hi := imin(lo+rapid.IntRange(1, 3).Draw(rt, "win"), len(c.Events))
		for {
			var live []int
			for e := lo; e < hi; e++ {
				if next[e] < len(c.Events[e].Lines) {
					live = append(live, e)
				}
			}
			if len(live) == 0 {
				break
			}
			e := live[rapid.IntRange(0, len(live)-1).Draw(rt, "pickev")]
			c.Order = append(c.Order, e)
			next[e]++
		}
		lo = hi
	}
	total := len(c.Order)
	switch c.Kind {
	case "malformed", "malformed_backlog":
		if rapid.Bool().Draw(rt, "const") {
			c.BadLine = pick(rt, "bad", malformedLines)
		} else {
			// truncate a valid header
			l := c.Events[rapid.IntRange(0, len(c.Events)-1).Draw(rt, "src")].Lines[0]
			c.BadLine = l[:rapid.IntRange(1, imin(len(l), 40)).Draw(rt, "cut")]
		}
		c.BadAt = rapid.IntRange(0, total).Draw(rt, "badAt")
	case "encoder_fail_during_login":
		c.FailAt = rapid.IntRange(1, len(c.Events)).Draw(rt, "failAt")
	case "invalid_login_pending_session":
		c.Login = "empty_cred"
		c.LoginAt = rapid.IntRange(1, total).Draw(rt, "loginAt")
	case "encoder_fail":
		c.FailAt = rapid.IntRange(1, len(c.Events)).Draw(rt, "failAt")
		// the login may arrive after some records: the failure then hits the
		// release of the hold queue
		c.LoginAt = rapid.IntRange(0, total).Draw(rt, "loginAtLines")
	case "bad_login_pid":
		c.BadPID = pick(rt, "badpid", []string{"", "abc", "12x", "0x10", "1.5", "(none)", "?"})
	case "invalid_login":
		c.Login = pick(rt, "login", []string{"nil_source", "zero_pid", "negative_pid", "empty_cred"})
		c.LoginAt = rapid.IntRange(0, total).Draw(rt, "loginAt")
	}
	return c
}

// execC15Backlog: the daemon wires the audit lines through a buffered channel
// (capacity 10000); the ingester may be far ahead of the processor. The whole
// stream, with the malformed line somewhere inside, is queued before Read starts.
func execC15Backlog(c c15Case) Outcome {
	if _, perr := auparse.ParseLogLine(c.BadLine); perr == nil {
		return Outcome{Skip: "line_accepted_by_auparse"}
	}
	if strings.TrimSpace(c.BadLine) == "" || c.BadLine == "" {
		return Outcome{Skip: "empty_line"}
	}
	var lines []string
	next := make([]int, len(c.Events))
	for i, e := range c.Order {
		if i == c.BadAt {
			lines = append(lines, c.BadLine)
		}
		lines = append(lines, c.Events[e].Lines[next[e]])
		next[e]++
	}
	if c.BadAt >= len(c.Order) {
		lines = append(lines, c.BadLine)
	}
	audits := make(chan string, 10000)
	for _, l := range lines {
		audits <- l
	}
	rec := &Rec{}
	ctx, cancel := context.WithCancel(context.Background())
	defer cancel()
	a := auditd.Auditd{Audits: audits, Logins: make(chan common.RemoteUserLogin), EventW: newWriter(rec), Health: health.NewHealth()}
	done := make(chan error, 1)
	go func() { done <- a.Read(ctx) }()
	select {
	case err := <-done:
		if err == nil || !strings.Contains(err.Error(), c.BadLine) {
			return fail("malformed line %q at position %d of a queued burst of %d lines: Read returned %v, want an error that identifies the offending line", c.BadLine, c.BadAt, len(lines), err)
		}
	case <-time.After(5 * time.Second):
		cancel()
		<-done
		return fail("malformed line %q at position %d of a queued burst of %d lines: Read kept running (line skipped silently)", c.BadLine, c.BadAt, len(lines))
	}
	return Outcome{NT: c.BadAt > 0, Labels: []string{"kind:malformed_backlog"}}
}

// execC15BacklogHeld: the processor is busy writing an event (the sink stalls)
// while the ingester queues a well-formed record and then a malformed line
// behind it. The malformed line must be reported, and the record queued before
// it must not vanish: its event is written before Read returns.
func execC15BacklogHeld(c c15Case) Outcome {
	if _, perr := auparse.ParseLogLine(c.BadLine); perr == nil {
		return Outcome{Skip: "line_accepted_by_auparse"}
	}
	if strings.TrimSpace(c.BadLine) == "" {
		return Outcome{Skip: "empty_line"}
	}
	rec := &Rec{}
	gate := make(chan struct{})
	stalled := make(chan struct{})
	var once sync.Once
	rec.Hook = func() {
		first := false
		once.Do(func() { first = true; close(stalled) })
		if first {
			<-gate
		}
	}
	audits := make(chan string, 10000)
	logins := make(chan common.RemoteUserLogin)
	ctx, cancel := context.WithCancel(context.Background())
	defer cancel()
	a := auditd.Auditd{Audits: audits, Logins: logins, EventW: newWriter(rec), Health: health.NewHealth()}
	done := make(chan error, 1)
	go func() { done <- a.Read(ctx) }()
	release := func() {
		select {
		case <-gate:
		default:
			close(gate)
		}
	}
	defer release()
	select {
	case logins <- loginFor(0, hop{K: "login", P: 1}):
	case <-time.After(10 * time.Second):
		panic(&infraError{"login not accepted"})
	}
	// the session's LOGIN record: its UserAction is the first write, which stalls
	for _, l := range audEventForOp(1, hop{K: "open", S: 1, P: 1}).Lines {
		audits <- l
	}
	audits <- audEventForOp(2, hop{K: "ev", S: 1, T: "USER_ACCT"}).Lines[0] // completes the LOGIN event in every reassembler mode
	select {
	case <-stalled:
	case <-time.After(3 * time.Second):
		return Outcome{Skip: "first_event_not_written_before_the_burst"}
	}
	// queued while the processor is busy: one more complete record of the session, then the malformed line
	n := 1 + c.BadAt%3
	for i := 0; i < n; i++ {
		audits <- audEventForOp(3+i, hop{K: "ev", S: 1, T: "USER_START"}).Lines[0]
	}
	audits <- c.BadLine
	time.Sleep(2 * time.Millisecond)
	release()
	select {
	case err := <-done:
		if err == nil || !strings.Contains(err.Error(), c.BadLine) {
			return fail("malformed line %q queued behind %d good records: Read returned %v, want an error that identifies the offending line", c.BadLine, n, err)
		}
	case <-time.After(5 * time.Second):
		cancel()
		<-done
		return fail("malformed line %q queued behind %d good records while the processor was busy: Read kept running", c.BadLine, n)
	}
	// LOGIN + USER_ACCT + n USER_START records were all queued before the malformed line
	if got := rec.Len(); got != 2+n {
		return fail("malformed line %q queued behind good records: %d of the %d events of the records queued BEFORE it were written (records vanished without being named by the error)", c.BadLine, got, 2+n)
	}
	return Outcome{NT: true, Labels: []string{"kind:malformed_backlog_held"}}
}

func execC15(c c15Case) Outcome {
	if c.Kind == "malformed_backlog" {
		if c.BadAt%2 == 1 {
			return execC15BacklogHeld(c)
		}
		return execC15Backlog(c)
	}
	if c.Kind == "encoder_fail_during_login" {
		return execC15FailDuringLogin(c)
	}
	if c.Kind == "invalid_login_pending_session" {
		return execC15InvalidLoginPending(c)
	}
	rec := &Rec{}
	if c.Kind == "encoder_fail" {
		rec.FailAt = c.FailAt
	}
	rig := newReadRig(rec)
	defer rig.stop()
	l1 := loginFor(0, hop{K: "login", P: 1})
	lateLogin := c.Kind == "encoder_fail" && c.LoginAt > 0
	if !lateLogin {
		if err := rig.login(l1); err != nil {
			return fail("login: %v", rig.exitErr)
		}
		if err := rig.loginBarrier(); err != nil {
			return fail("barrier: %v", rig.exitErr)
		}
	}
	events := append([]audEvent{}, c.Events...)
	if c.Kind == "bad_login_pid" {
		// rewrite the LOGIN record's pid field
		l := events[0].Lines[0]
		good := " pid=" + strconv.Itoa(pidValue(1)) + " "
		if c.BadPID == "" {
			l = strings.Replace(l, good, " ", 1)
		} else {
			l = strings.Replace(l, good, " pid="+c.BadPID+" ", 1)
		}
		events[0].Lines = []string{l}
	}
	next := make([]int, len(events))
	sent := 0
	labels := []string{"kind:" + c.Kind}
	interleaved := false
	prev := -1
	open := map[int]bool{}
	for _, e := range c.Order {
		if len(open) >= 2 || (prev >= 0 && prev != e && open[prev]) {
			interleaved = true
		}
		if c.Kind == "malformed" && sent == c.BadAt {
			return c15Malformed(rig, c, sent)
		}
		if c.Kind == "invalid_login" && sent == c.LoginAt {
			return c15InvalidLogin(rig, c)
		}
		if lateLogin && sent == c.LoginAt {
			lateLogin = false
			if err := rig.login(l1); err != nil {
				return c15AfterExit(rig, c, rec, sent, "")
			}
			if err := rig.loginBarrier(); err != nil {
				return c15AfterExit(rig, c, rec, sent, "")
			}
		}
		line := events[e].Lines[next[e]]
		next[e]++
		open[e] = next[e] < len(events[e].Lines)
		if !open[e] {
			delete(open, e)
		}
		prev = e
		if err := rig.line(line); err != nil {
			return c15AfterExit(rig, c, rec, sent, line)
		}
		sent++
	}
	if c.Kind == "malformed" {
		return c15Malformed(rig, c, sent)
	}
	if c.Kind == "invalid_login" {
		return c15InvalidLogin(rig, c)
	}
	if lateLogin {
		if err := rig.login(l1); err != nil {
			return c15AfterExit(rig, c, rec, sent, "")
		}
		if err := rig.loginBarrier(); err != nil {
			return c15AfterExit(rig, c, rec, sent, "")
		}
	}
	if err := rig.auditBarrier(); err != nil {
		return c15AfterExit(rig, c, rec, sent, "")
	}
	switch c.Kind {
	case "encoder_fail", "bad_login_pid":
		// the failure is reported asynchronously through the processor's
		// error channel: Read must stop within the bound
		err, ok := rig.waitExit(5 * time.Second)
		if !ok {
			return fail("%s: the correlator reported a failure but Read kept running for 5s", c.Kind)
		}
		return c15CheckExit(c, err)
	}
	// interleaved, no fault: exactly one UserAction per kernel event, each the
	// rendering of its own records, in sequence-number order
	evs := rec.Events()
	if len(evs) != len(events) {
		return fail("%d UserActions for %d kernel events (schedule %v)", len(evs), len(events), c.Order)
	}
	// the reassembler delivers an event when it completes unless a lower
	// sequence number is still in flight, so emission order is not asserted
	// here: each kernel event must be rendered exactly once, from its own records
	byTs := map[int]*auditevent.AuditEvent{}
	for _, e := range evs {
		i := evIndexOf(e.Ev.LoggedAt)
		if _, dup := byTs[i]; dup {
			return fail("two UserActions carry the timestamp of kernel event index %d (schedule %v)", i, c.Order)
		}
		byTs[i] = e.Ev
	}
	// grouping oracle (metamorphic): the same kernel events delivered one after
	// the other — no interleaving — through a second processor instance must give
	// the same UserAction per kernel event. Records of one event mixed into
	// another differ; how an event is rendered is C14's concern and cancels out.
	ref, rerr := c15SequentialReference(events)
	if rerr != nil {
		return Outcome{Err: rerr}
	}
	for _, ae := range events {
		got, ok := byTs[ae.TsIdx]
		if !ok {
			return fail("kernel event seq %d (%d records) produced no UserAction (schedule %v)", ae.Seq, len(ae.Lines), c.Order)
		}
		want, ok := ref[ae.TsIdx]
		if !ok {
			return fail("kernel event seq %d produced no UserAction even when its records are delivered without interleaving", ae.Seq)
		}
		if canonEvent(got) != want {
			return fail("kernel event seq %d (%d records, schedule %v): interleaved with other events' records it is emitted as %s, delivered alone as %s", ae.Seq, len(ae.Lines), c.Order, canonEventKeepTime(got), want)
		}
	}
	if interleaved {
		labels = append(labels, "records_of_concurrent_events_interleaved")
	}
	return Outcome{NT: interleaved, Labels: labels}
}

func canonEventKeepTime(ev *auditevent.AuditEvent) string {
	c := deepCopyEvent(ev)
	c.Metadata.AuditID = ev.Metadata.AuditID
	return evJSON(c)
}

// c15SequentialReference feeds the events one after the other (each event's
// records contiguous) and returns the emitted UserAction per timestamp index.
func c15SequentialReference(events []audEvent) (map[int]string, error) {
	rig := newReadRig(nil)
	defer rig.stop()
	if err := rig.login(loginFor(0, hop{K: "login", P: 1})); err != nil {
		return nil, fmt.Errorf("reference run: Read exited: %v", rig.exitErr)
	}
	if err := rig.loginBarrier(); err != nil {
		return nil, fmt.Errorf("reference run: Read exited: %v", rig.exitErr)
	}
	for _, ae := range events {
		for _, l := range ae.Lines {
			if err := rig.line(l); err != nil {
				return nil, fmt.Errorf("reference run: Read exited with %v on a well-formed stream", rig.exitErr)
			}
		}
	}
	if err := rig.auditBarrier(); err != nil {
		return nil, fmt.Errorf("reference run: Read exited with %v on a well-formed stream", rig.exitErr)
	}
	out := map[int]string{}
	for _, e := range rig.rec.Events() {
		out[evIndexOf(e.Ev.LoggedAt)] = canonEvent(e.Ev)
	}
	return out, nil
}

// execC15FailDuringLogin: the event write fails while the Read loop is busy
// handling a (different) login, i.e. not parked in its select. The failure must
// still stop the processor.
func execC15FailDuringLogin(c c15Case) Outcome {
	rec := &Rec{FailAt: c.FailAt}
	rig := newReadRig(rec)
	defer rig.stop()
	if err := rig.login(loginFor(0, hop{K: "login", P: 1})); err != nil {
		return fail("login: %v", rig.exitErr)
	}
	if err := rig.loginBarrier(); err != nil {
		return fail("barrier: %v", rig.exitErr)
	}
	// at the failing Encode call: let another login reach the Read loop first
	// (it blocks behind the correlator's mutex held by the event being written)
	inEncode := make(chan struct{})
	release := make(chan struct{})
	rec.Hook = func() {
		if rec.Calls()+1 == c.FailAt {
			close(inEncode)
			<-release
		}
	}
	stop := make(chan struct{})
	defer close(stop)
	fed := make(chan struct{})
	go func() {
		defer close(fed)
		for _, ae := range c.Events {
			for _, l := range ae.Lines {
				select {
				case rig.audits <- l:
				case <-stop:
					return
				}
			}
		}
		// barrier: accepted only after the last record was fully processed
		select {
		case rig.audits <- "":
		case <-stop:
		}
	}()
	select {
	case <-inEncode:
	case <-fed:
		return fail("the whole stream was accepted without reaching event write %d (%d events written)", c.FailAt, rec.Len())
	case <-time.After(rigGuard):
		panic(&infraError{"failing Encode not reached"})
	}
	other := loginFor(50, hop{K: "login", P: 7})
	select {
	case rig.logins <- other:
	case <-time.After(20 * time.Millisecond):
		// the Read loop is still busy with the previous (barrier) login, which is
		// blocked behind the correlator's mutex: that is the state wanted here
	}
	time.Sleep(300 * time.Microsecond) // let the Read loop enter the correlator
	close(release)
	err, ok := rig.waitExit(5 * time.Second)
	if !ok {
		return fail("event write %d failed while a login was being handled: the failure was dropped and Read kept running for 5s", c.FailAt)
	}
	if err == nil || !errors.Is(err, errInjected) {
		return fail("event write %d failed while a login was being handled: Read returned %v, want an error wrapping the write error", c.FailAt, err)
	}
	return Outcome{NT: true, Labels: []string{"kind:" + c.Kind}}
}

// execC15InvalidLoginPending: an invalid login whose PID matches an open,
// still uncorrelated session must stop the processor like any invalid login.
func execC15InvalidLoginPending(c c15Case) Outcome {
	rig := newReadRig(nil)
	defer rig.stop()
	sent := 0
	for _, e := range c.Order {
		_ = e
		break
	}
	// deliver whole events (records in kernel order) until LoginAt lines were sent
	for _, ae := range c.Events {
		for _, l := range ae.Lines {
			if err := rig.line(l); err != nil {
				return fail("Read exited with %v on a well-formed stream", rig.exitErr)
			}
			sent++
		}
		if sent >= c.LoginAt {
			break
		}
	}
	if err := rig.auditBarrier(); err != nil {
		return fail("Read exited with %v on a well-formed stream", rig.exitErr)
	}
	bad := loginFor(0, hop{K: "login", P: 1}) // the pid of the pending session's LOGIN record
	bad.CredUserID = ""
	if err := rig.login(bad); err != nil {
		return fail("Read exited before the invalid login was sent: %v", rig.exitErr)
	}
	err, ok := rig.waitExit(5 * time.Second)
	if !ok {
		return fail("invalid login (empty credential) for the pid of a pending session: Read kept running (%d events written)", rig.rec.Len())
	}
	var ste *sessiontracker.SessionTrackerError
	if err == nil || !errors.As(err, &ste) || !ste.RemoteLoginFailed() {
		return fail("invalid login (empty credential) for the pid of a pending session: Read returned %v, want the login validation failure", err)
	}
	return Outcome{NT: true, Labels: []string{"kind:" + c.Kind}}
}

func c15CheckExit(c c15Case, err error) Outcome {
	labels := []string{"kind:" + c.Kind}
	switch c.Kind {
	case "encoder_fail":
		if err == nil || !errors.Is(err, errInjected) {
			return fail("write failure at event %d: Read returned %v, want an error wrapping the write error", c.FailAt, err)
		}
		var ste *sessiontracker.SessionTrackerError
		if !errors.As(err, &ste) || !ste.AuditEventWriteFailed() {
			// the login-flush path returns the bare encoder error; accept any
			// error that wraps the sentinel (the statement asks for "that error")
			labels = append(labels, "write_error_not_typed")
		}
		return Outcome{NT: c.FailAt > 1, Labels: labels}
	case "bad_login_pid":
		var ste *sessiontracker.SessionTrackerError
		if err == nil || !errors.As(err, &ste) || !ste.ParsePIDFailed() {
			return fail("LOGIN record with pid %q: Read returned %v, want the correlator's PID parse failure", c.BadPID, err)
		}
		return Outcome{NT: true, Labels: labels}
	}
	return fail("unexpected exit of Read: %v", err)
}

// c15AfterExit: Read exited while the stream was being fed.
func c15AfterExit(rig *readRig, c c15Case, rec *Rec, sent int, line string) Outcome {
	switch c.Kind {
	case "encoder_fail", "bad_login_pid":
		return c15CheckExit(c, rig.exitErr)
	}
	return fail("Read exited with %v while feeding a well-formed stream (after %d lines, next %q)", rig.exitErr, sent, line)
}

func c15Malformed(rig *readRig, c c15Case, sent int) Outcome {
	if _, perr := auparse.ParseLogLine(c.BadLine); perr == nil {
		return Outcome{Skip: "line_accepted_by_auparse"}
	}
	if c.BadLine == "" {
		return Outcome{Skip: "empty_line"}
	}
	before := rig.rec.Len()
	if err := rig.line(c.BadLine); err != nil {
		return fail("Read exited before the malformed line was sent: %v", rig.exitErr)
	}
	err, ok := rig.waitExit(5 * time.Second)
	if !ok {
		return fail("malformed line %q after %d lines: Read kept running (line skipped silently)", c.BadLine, sent)
	}
	if err == nil || !strings.Contains(err.Error(), c.BadLine) {
		return fail("malformed line %q: Read returned %v, want an error that identifies the offending line", c.BadLine, err)
	}
	if rig.rec.Len() != before {
		// events may only come from lines before the malformed one
		// (flush on close); they were all complete, so nothing may appear
		addExtra("c15.stream", "events_after_malformed_line", rig.rec.Len()-before)
	}
	return Outcome{NT: sent > 1, Labels: []string{"kind:malformed"}}
}

func c15InvalidLogin(rig *readRig, c c15Case) Outcome {
	good := loginFor(99, hop{K: "login", P: 9})
	l := good
	switch c.Login {
	case "nil_source":
		l.Source = nil
	case "zero_pid":
		l.PID = 0
	case "negative_pid":
		l.PID = -5
	case "empty_cred":
		l.CredUserID = ""
	}
	if err := rig.login(l); err != nil {
		return fail("Read exited before the invalid login was sent: %v", rig.exitErr)
	}
	err, ok := rig.waitExit(5 * time.Second)
	if !ok {
		return fail("invalid login (%s): Read kept running (login dropped silently)", c.Login)
	}
	var ste *sessiontracker.SessionTrackerError
	if err == nil || !errors.As(err, &ste) || !ste.RemoteLoginFailed() {
		return fail("invalid login (%s): Read returned %v, want the correlator's login validation failure", c.Login, err)
	}
	var ve *common.RemoteUserLoginValidateError
	if !errors.As(err, &ve) {
		return fail("invalid login (%s): returned error %v does not wrap the validation error", c.Login, err)
	}
	return Outcome{NT: c.LoginAt > 1, Labels: []string{"kind:invalid_login", "login:" + c.Login}}
}

func TestC15_Stream(t *testing.T) {
	RunProp(t, "c15.stream", genC15, retryFlaky("c15.stream", execC15))
}

// ---------------------------------------------------------------------------
// C07 (audit half) — a record line parses identically with or without its
// trailing newline.

type c07AudCase struct {
	Ev audEvent `json:"ev"`
}

func genC07Aud(rt *rapid.T) c07AudCase {
	typ := pick(rt, "typ", []string{"LOGIN", "SYSCALL", "USER_START", "USER_END", "CRED_ACQ", "CRED_DISP", "USER_LOGIN", "USER_CMD", "USER_ACCT", "CRED_REFR", "USER_AUTH"})
	ses := pick(rt, "ses", []string{"", "4294967295", "-1", "501", "7", "123456"})
	return c07AudCase{Ev: buildAudEvent(typ, rapid.IntRange(1, 900).Draw(rt, "ts"), rapid.IntRange(1, 1<<30).Draw(rt, "seq"), genAudFields(rt, typ, ses, strconv.Itoa(rapid.IntRange(1, 4000000).Draw(rt, "pid"))))}
}

func execC07Aud(c c07AudCase) Outcome {
	for _, l := range c.Ev.Lines {
		a, errA := auparse.ParseLogLine(l)
		b, errB := auparse.ParseLogLine(l + "\n")
		if (errA == nil) != (errB == nil) {
			return fail("line %q: parse error without newline %v, with newline %v", l, errA, errB)
		}
		if errA != nil {
			panic(&infraError{"generated line does not parse: " + errA.Error()})
		}
		da, ea := a.Data()
		db, eb := b.Data()
		if a.RecordType != b.RecordType || !a.Timestamp.Equal(b.Timestamp) || a.Sequence != b.Sequence || (ea == nil) != (eb == nil) || !reflect.DeepEqual(da, db) {
			return fail("line %q parses differently with a trailing newline: %v / %v", l, da, db)
		}
	}
	return Outcome{NT: c.Ev.Tail, Labels: []string{"type:" + c.Ev.Type}}
}

func TestC07_AuditLine(t *testing.T) { RunProp(t, "c07.audit_line", genC07Aud, execC07Aud) }

// C07 (audit half, real FIFO): records written to the audit pipe arrive at the
// audit processor's input such that each parses to the same audit message as
// the original line handed over directly.
type c07AudFifoCase struct {
	Events []audEvent `json:"events"`
	Chunk  int        `json:"chunk"`
}

func genC07AudFifo(rt *rapid.T) c07AudFifoCase {
	n := rapid.IntRange(1, 6).Draw(rt, "n")
	c := c07AudFifoCase{Chunk: pick(rt, "chunk", []int{1, 17, 512, 4096, 1 << 16})}
	for i := 0; i < n; i++ {
		typ := pick(rt, "typ", []string{"SYSCALL", "SYSCALL", "USER_START", "CRED_DISP", "USER_CMD", "LOGIN"})
		f := genAudFields(rt, typ, "501", "4242")
		if typ == "SYSCALL" && rapid.IntRange(0, 2).Draw(rt, "big") == 0 {
			// EXECVE argument lists run to several KiB (auditd's record limit is 8970 bytes)
			f.Args = []string{"bigcmd"}
			for a := rapid.IntRange(60, 150).Draw(rt, "nargs"); a > 0; a-- {
				f.Args = append(f.Args, "--option="+strings.Repeat("v", 40))
			}
		}
		c.Events = append(c.Events, buildAudEvent(typ, i+1, 9000+i, f))
	}
	return c
}

func execC07AudFifo(c c07AudFifoCase) Outcome {
	dir, path, err := mkfifoDir()
	if err != nil {
		panic(&infraError{err.Error()})
	}
	defer os.RemoveAll(dir)
	var lines []string
	for _, e := range c.Events {
		lines = append(lines, e.Lines...)
	}
	ch := make(chan string, len(lines)+8)
	ctx, cancel := context.WithCancel(context.Background())
	defer cancel()
	ali := auditlog.NewAuditLogIngester(path, ch, namedpipe.NewNamedPipeIngester(zap.NewNop().Sugar(), health.NewHealth()))
	done := make(chan error, 1)
	go func() { done <- ali.Ingest(ctx) }()
	w, err := os.OpenFile(path, os.O_WRONLY, 0)
	if err != nil {
		panic(&infraError{err.Error()})
	}
	stream := []byte(strings.Join(lines, "\n") + "\n")
	if len(stream) > 3000 && c.Chunk < 17 {
		c.Chunk = 17
	}
	for off := 0; off < len(stream); off += c.Chunk {
		end := off + c.Chunk
		if end > len(stream) {
			end = len(stream)
		}
		if _, err := w.Write(stream[off:end]); err != nil {
			break
		}
	}
	w.Close()
	// completion: all records handed downstream, or the ingester returned (how
	// end-of-stream is reported is C12's concern)
	deadline := time.Now().Add(20 * time.Second)
	for len(ch) < len(lines) && time.Now().Before(deadline) {
		select {
		case <-done:
			deadline = time.Now()
		case <-time.After(200 * time.Microsecond):
		}
	}
	cancel()
	var got []string
	for len(ch) > 0 {
		got = append(got, <-ch)
	}
	if len(got) != len(lines) {
		return fail("%d records written to the audit pipe, %d handed to the audit processor", len(lines), len(got))
	}
	long := false
	for i, l := range lines {
		if len(l) > 4096 {
			long = true
		}
		a, errA := auparse.ParseLogLine(l)
		b, errB := auparse.ParseLogLine(got[i])
		if errA != nil {
			panic(&infraError{"generated line does not parse: " + errA.Error()})
		}
		if errB != nil {
			return fail("record %d arrives unparsable through the pipe (%v): got %q..., sent %q...", i, errB, head(got[i]), head(l))
		}
		da, _ := a.Data()
		db, _ := b.Data()
		if a.RecordType != b.RecordType || !a.Timestamp.Equal(b.Timestamp) || a.Sequence != b.Sequence || !reflect.DeepEqual(da, db) {
			return fail("record %d (%d bytes) parses differently after travelling through the pipe: type %v/%v seq %d/%d; got %q..., sent %q...", i, len(l), a.RecordType, b.RecordType, a.Sequence, b.Sequence, head(got[i]), head(l))
		}
	}
	return Outcome{NT: long, Labels: []string{fmt.Sprintf("long_record:%v", long)}}
}

func TestC07_AuditFifo(t *testing.T) { RunProp(t, "c07.audit_fifo", genC07AudFifo, execC07AudFifo) }
