package vh

import (
	"encoding/hex"
	"fmt"
	"strconv"
	"strings"

	"pgregory.net/rapid"
)

// G-AUD — grammar of Linux audit records as written by auditd to its log
// (type=T msg=audit(SEC.MS:SEQ): k=v ...). The enrichment tail, when present,
// is separated by a space (see DESIGN.md §2.3 for why the 0x1d-glued form is
// not generated).

// audEvent is one kernel audit event: the records that share a sequence number.
type audEvent struct {
	Seq     int      `json:"seq"`
	TsIdx   int      `json:"ts_idx"` // unique index -> timestamp evTime(TsIdx)
	Lines   []string `json:"lines"`  // record lines in kernel order (no newline)
	Type    string   `json:"type"`   // type of the first record
	Ses     string   `json:"ses"`    // raw session spelling; "" = no ses field
	Success bool     `json:"success"`
	Args    []string `json:"args,omitempty"`
	Tail    bool     `json:"tail"` // has an enrichment tail
}

func audStamp(tsIdx, seq int) string {
	t := evTime(tsIdx)
	return fmt.Sprintf("audit(%d.%03d:%d)", t.Unix(), t.Nanosecond()/1e6, seq)
}

type audFields struct {
	OldSes  string // LOGIN: old-ses value; "" = 4294967295
	Ses     string // "" = omit
	PID     string
	Result  string // raw spelling for res=/success=
	Acct    string
	Host    string
	Exe     string
	Args    []string
	Paths   []string
	PathNT  []string // nametype per PATH record ("" = NORMAL)
	Cwd     string
	Tail    bool
	Key     string
	UID     string
	Syscall string
}

func q(s string) string { return `"` + s + `"` }

// buildAudEvent renders one audit event of the given record type.
func buildAudEvent(typ string, tsIdx, seq int, f audFields) audEvent {
	st := audStamp(tsIdx, seq)
	ses := ""
	if f.Ses != "" {
		ses = " ses=" + f.Ses
	}
	e := audEvent{Seq: seq, TsIdx: tsIdx, Type: typ, Ses: f.Ses, Tail: f.Tail}
	lower := strings.ToLower(f.Result)
	e.Success = lower == "yes" || lower == "1" || strings.HasPrefix(lower, "suc")
	switch typ {
	case "LOGIN":
		oldSes := f.OldSes
		if oldSes == "" {
			oldSes = "4294967295"
		}
		l := fmt.Sprintf("type=LOGIN msg=%s: pid=%s uid=0 old-auid=4294967295 auid=%s tty=(none) old-ses=%s%s res=%s", st, f.PID, f.UID, oldSes, ses, f.Result)
		if f.Tail {
			l += ` UID="root" OLD-AUID="unset" AUID="someuser"`
		}
		e.Lines = []string{l}
	case "SYSCALL", "AVC_SYSCALL":
		if typ == "AVC_SYSCALL" {
			// an SELinux denial: the AVC record precedes the SYSCALL record of the same event
			e.Lines = append(e.Lines, fmt.Sprintf("type=AVC msg=%s: avc:  denied  { read } for  pid=%s comm=%s name=\"shadow\" dev=\"dm-0\" ino=1453124 scontext=system_u:system_r:svirt_lxc_net_t:s0:c222,c955 tcontext=system_u:object_r:shadow_t:s0 tclass=file permissive=1",
				st, f.PID, q(baseName(f.Exe))))
		}
		l := fmt.Sprintf("type=SYSCALL msg=%s: arch=c000003e syscall=%s success=%s exit=0 a0=557fa8254980 a1=557fa827a720 a2=557fa82549c0 a3=557fa7701780 items=%d ppid=803 pid=%s auid=%s uid=%s gid=0 euid=0 suid=0 fsuid=0 egid=0 sgid=0 fsgid=0 tty=pts3%s comm=%s exe=%s key=%s",
			st, f.Syscall, f.Result, len(f.Paths), f.PID, f.UID, f.UID, ses, q(baseName(f.Exe)), q(f.Exe), q(f.Key))
		if f.Tail {
			l += ` ARCH=x86_64 SYSCALL=execve AUID="someuser" UID="root" GID="root" EUID="root" SUID="root" FSUID="root" EGID="root" SGID="root" FSGID="root"`
		}
		e.Lines = append(e.Lines, l)
		if len(f.Args) > 0 {
			a := fmt.Sprintf("type=EXECVE msg=%s: argc=%d", st, len(f.Args))
			for i, x := range f.Args {
				a += fmt.Sprintf(" a%d=%s", i, audArg(x))
			}
			e.Lines = append(e.Lines, a)
			e.Args = f.Args
		}
		if f.Cwd != "" {
			e.Lines = append(e.Lines, fmt.Sprintf("type=CWD msg=%s: cwd=%s", st, q(f.Cwd)))
		}
		for i, p := range f.Paths {
			nt := "NORMAL"
			if i < len(f.PathNT) && f.PathNT[i] != "" {
				nt = f.PathNT[i]
			}
			pl := fmt.Sprintf("type=PATH msg=%s: item=%d name=%s inode=1453124 dev=fd:00 mode=0100755 ouid=0 ogid=0 rdev=00:00 nametype=%s cap_fp=0 cap_fi=0 cap_fe=0 cap_fver=0 cap_frootid=0", st, i, q(p), nt)
			if f.Tail {
				pl += ` OUID="root" OGID="root"`
			}
			e.Lines = append(e.Lines, pl)
		}
		title := f.Exe
		if len(f.Args) > 0 {
			title = strings.Join(f.Args, "\x00")
		}
		e.Lines = append(e.Lines, fmt.Sprintf("type=PROCTITLE msg=%s: proctitle=%s", st, strings.ToUpper(hex.EncodeToString([]byte(title)))))
	case "USER_CMD":
		l := fmt.Sprintf("type=USER_CMD msg=%s: pid=%s uid=%s auid=%s%s msg='cwd=%s cmd=%s terminal=pts/0 res=%s'", st, f.PID, f.UID, f.UID, ses, q(f.Cwd), strings.ToUpper(hex.EncodeToString([]byte(strings.Join(f.Args, " ")))), f.Result)
		if f.Tail {
			l += ` UID="someuser" AUID="someuser"`
		}
		e.Lines = []string{l}
	default: // PAM-style user records: USER_ACCT CRED_ACQ USER_START USER_END CRED_DISP CRED_REFR USER_LOGIN USER_AUTH USER_ERR SERVICE_START
		op := map[string]string{"USER_ACCT": "PAM:accounting", "CRED_ACQ": "PAM:setcred", "USER_START": "PAM:session_open",
			"USER_END": "PAM:session_close", "CRED_DISP": "PAM:setcred", "CRED_REFR": "PAM:setcred", "USER_LOGIN": "login",
			"USER_AUTH": "PAM:authentication", "USER_ERR": "PAM:bad_ident"}[typ]
		if op == "" {
			op = "x"
		}
		l := fmt.Sprintf("type=%s msg=%s: pid=%s uid=0 auid=%s%s msg='op=%s grantors=pam_permit acct=%s exe=%s hostname=%s addr=%s terminal=ssh res=%s'",
			typ, st, f.PID, f.UID, ses, op, q(f.Acct), q(f.Exe), f.Host, f.Host, f.Result)
		if f.Tail {
			l += ` UID="root" AUID="someuser"`
		}
		e.Lines = []string{l}
	}
	return e
}

func baseName(p string) string {
	if i := strings.LastIndex(p, "/"); i >= 0 {
		return p[i+1:]
	}
	return p
}

// audArg renders an EXECVE argument the way the kernel does: quoted when it
// is plain, hex-encoded when it contains a space, quote or control byte.
func audArg(s string) string {
	plain := s != ""
	for _, c := range []byte(s) {
		if c <= 0x20 || c == '"' || c >= 0x7f {
			plain = false
		}
	}
	if plain {
		return q(s)
	}
	return strings.ToUpper(hex.EncodeToString([]byte(s)))
}

// genAudFields draws the free fields of one event.
func genAudFields(rt *rapid.T, typ string, ses string, pid string) audFields {
	f := audFields{Ses: ses, PID: pid}
	if typ == "SYSCALL" || typ == "AVC_SYSCALL" {
		f.Result = pick(rt, "succ", []string{"yes", "yes", "no"})
	} else if typ == "LOGIN" {
		f.Result = pick(rt, "res", []string{"1", "1", "0"})
	} else {
		f.Result = pick(rt, "res", []string{"success", "success", "failed", "1", "0"})
	}
	f.Acct = pick(rt, "acct", []string{"someuser", "root", "ops", "svc-x", "dev#007"})
	f.Host = pick(rt, "host", []string{"127.0.0.1", "10.1.2.3", "?", "fe80::1"})
	f.Exe = pick(rt, "exe", []string{"/usr/sbin/sshd", "/usr/bin/ls", "/usr/bin/cat", "/bin/bash", "/usr/bin/sudo"})
	f.UID = pick(rt, "uid", []string{"0", "1000", "4294967295", "65534"})
	f.Tail = rapid.IntRange(0, 2).Draw(rt, "tail") == 0
	f.Key = pick(rt, "key", []string{"operator-commands", "security-config-changes", "x"})
	// execve, openat, open, unlink, mkdir, rename, rmdir, link, symlink, chmod, unlinkat, renameat2
	f.Syscall = pick(rt, "sc", []string{"59", "59", "257", "2", "87", "83", "82", "84", "86", "88", "90", "263", "316"})
	if typ == "SYSCALL" || typ == "USER_CMD" || typ == "AVC_SYSCALL" {
		if typ == "USER_CMD" || rapid.IntRange(0, 3).Draw(rt, "execve") > 0 {
			n := rapid.IntRange(1, 5).Draw(rt, "argc")
			for i := 0; i < n; i++ {
				f.Args = append(f.Args, pick(rt, "arg", []string{"ls", "-l", "/tmp/a b", "cat", "/etc/shadow", "--color=auto", "x\"y", "é", "-", "fix#123.sh", "issue#101.patch", "a#012b"}))
			}
		}
		if len(f.Args) > 0 && typ != "USER_CMD" && rapid.IntRange(0, 7).Draw(rt, "longarg") == 5 {
			f.Args = append(f.Args, strings.Repeat("s", rapid.SampledFrom([]int{256, 257, 300, 1024, 4000}).Draw(rt, "arglen")))
		}
		if rapid.Bool().Draw(rt, "cwd") || typ == "USER_CMD" {
			f.Cwd = pick(rt, "cwdv", []string{"/", "/root", "/home/some user"})
		}
		for i := rapid.IntRange(0, 4).Draw(rt, "npaths"); i > 0; i-- {
			f.Paths = append(f.Paths, pick(rt, "path", []string{"/usr/bin/ls", "/lib64/ld-linux-x86-64.so.2", "/etc/shadow", "/tmp/a b", "/src/issue#101.patch", "/home/alice", "/home/alice/secrets", "old name", "new name"}))
			// the object of mkdir/rename/unlink/... is not the first PATH record (PARENT entries come first)
			f.PathNT = append(f.PathNT, pick(rt, "nametype", []string{"NORMAL", "NORMAL", "PARENT", "CREATE", "DELETE"}))
		}
		if len(f.Args) > 0 && typ != "USER_CMD" && rapid.IntRange(0, 15).Draw(rt, "manyargs") == 7 {
			// a shell glob expansion: dozens of arguments
			for i := rapid.IntRange(60, 90).Draw(rt, "nmany"); i > 0; i-- {
				f.Args = append(f.Args, "f"+strconv.Itoa(i))
			}
		}
	}
	return f
}

// defaultAudFields are used where the history generator does not care.
func defaultAudFields(typ, ses, pid string, i int) audFields {
	f := audFields{Ses: ses, PID: pid, Acct: "someuser", Host: "127.0.0.1", Exe: "/usr/sbin/sshd", UID: "1000", Key: "k", Syscall: "59", Tail: i%3 == 0}
	switch typ {
	case "SYSCALL":
		f.Result = "yes"
		f.Exe = "/usr/bin/ls"
		f.Args = []string{"ls", "-l", "dir" + strconv.Itoa(i)}
		f.Cwd = "/root"
		f.Paths = []string{"/usr/bin/ls"}
	case "LOGIN":
		f.Result = "1"
	case "USER_CMD":
		f.Result = "success"
		f.Args = []string{"ls", "-l"}
		f.Cwd = "/home/x"
	default:
		f.Result = "success"
	}
	if (i%4 == 1 || (typ == "CRED_DISP" && i%2 == 1)) && typ != "LOGIN" {
		if typ == "SYSCALL" {
			f.Result = "no"
		} else {
			f.Result = "failed"
		}
	}
	return f
}

// audEventForOp renders a history op as an audit event (text level).
func audEventForOp(opIndex int, o hop) audEvent {
	seq := 1000 + opIndex
	i := opIndex
	ts := scramble(opIndex) // kernel timestamp index: unique, not monotonic in processing order
	switch o.K {
	case "open":
		f := defaultAudFields("LOGIN", sesString(o.S), strconv.Itoa(pidValue(o.P)), i)
		if o.Old != 0 {
			// the process was in another audit session before (sshd restarted from
			// inside an ssh session, pam_loginuid run twice, su -l ...)
			f.OldSes = sesString(o.Old)
		}
		return buildAudEvent("LOGIN", ts, seq, f)
	case "disp":
		return buildAudEvent("CRED_DISP", ts, seq, defaultAudFields("CRED_DISP", sesString(o.S), opPidString(o), i))
	case "ev":
		return buildAudEvent(o.T, ts, seq, defaultAudFields(o.T, sesString(o.S), opPidString(o), i))
	default: // noise
		typ := "USER_ACCT"
		if i%2 == 0 {
			typ = "SYSCALL"
		}
		ses := ""
		pid := "779"
		switch o.T {
		case "unset":
			ses = "4294967295"
			if i%3 == 0 {
				ses = "-1"
			}
		case "unknown_ses":
			ses = sesString(o.S)
			pid = opPidString(o)
			if i%4 == 2 {
				typ = "USER_START"
			}
		case "login_unset":
			typ, ses, pid = "LOGIN", "4294967295", strconv.Itoa(pidValue(o.P))
		case "login_nosession":
			typ, ses, pid = "LOGIN", "", strconv.Itoa(pidValue(o.P))
		}
		return buildAudEvent(typ, ts, seq, defaultAudFields(typ, ses, pid, i))
	}
}
