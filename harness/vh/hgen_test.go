package vh

import (
	"pgregory.net/rapid"
)

// H-GEN — history generators (rapid and bounded-exhaustive).

type hgenOpts struct {
	MaxLen      int
	MaxSessions int  // sessions that have a pid of their own (session i opened by pid i)
	Orphans     bool // sessions without login, logins without session, noise
	Cleanup     string // "" none | "far" far past/far future | "between" cut-offs between arrivals
	Strays      bool // events after disp, events before open
	HeldAfterDisp bool // events after disp while the session has no login yet (they are held and released with the rest)
}

// genHistory draws a history without PID or session-id reuse: session i is
// opened by pid i; pids above MaxSessions never open a session; sessions in
// 90.. are never opened.
func genHistory(rt *rapid.T, o hgenOpts) history {
	nS := rapid.IntRange(2, o.MaxSessions).Draw(rt, "nS")
	n := rapid.IntRange(1, o.MaxLen).Draw(rt, "len")
	opened := map[int]bool{}
	disped := map[int]bool{}
	logged := map[int]bool{}
	var ops []hop
	for attempts := 0; len(ops) < n && attempts < 30*n; attempts++ {
		i := len(ops)
		k := rapid.IntRange(0, 99).Draw(rt, "kind")
		s := rapid.IntRange(1, nS).Draw(rt, "s")
		switch {
		case k < 18: // login
			p := s
			if o.Orphans && rapid.IntRange(0, 5).Draw(rt, "orphanLogin") == 0 {
				p = nS + 1 + rapid.IntRange(0, 2).Draw(rt, "op")
			}
			if logged[p] {
				continue
			}
			logged[p] = true
			ops = append(ops, hop{K: "login", P: p})
		case k < 36: // open
			if opened[s] {
				continue
			}
			opened[s] = true
			p := s
			if o.Orphans && rapid.IntRange(0, 6).Draw(rt, "orphanSes") == 0 && s > 1 {
				// a session opened by a pid that never logs in through ssh (cron, su):
				// make sure that pid never gets a login
				p = 50 + s
			}
			oldSes := 0
			if rapid.IntRange(0, 3).Draw(rt, "oldses") == 0 {
				if oldSes = rapid.IntRange(1, nS).Draw(rt, "oldsesN"); oldSes == s {
					oldSes = 0
				}
			}
			pp := 0
			if rapid.IntRange(0, 3).Draw(rt, "ppid") == 0 {
				// the session is opened by a child of some (other) sshd process, which
				// may have a login waiting or bound
				if pp = rapid.IntRange(1, nS+1).Draw(rt, "ppidN"); pp == p {
					pp = 0
				}
			}
			ops = append(ops, hop{K: "open", S: s, P: p, Old: oldSes, PP: pp})
		case k < 72: // ev
			if !opened[s] && !(o.Strays && rapid.IntRange(0, 4).Draw(rt, "early") == 0) {
				continue
			}
			if disped[s] && !(o.Strays && rapid.IntRange(0, 3).Draw(rt, "late") == 0) &&
				!(o.HeldAfterDisp && !logged[s] && rapid.IntRange(0, 1).Draw(rt, "heldlate") == 0) {
				continue
			}
			ops = append(ops, hop{K: "ev", S: s, T: pick(rt, "t", evTypeNames), P: evPid(rt, s, nS)})
			if rapid.IntRange(0, 19).Draw(rt, "burst") == 0 {
				// a burst: a busy session logs many records in a row
				for b := rapid.IntRange(4, 24).Draw(rt, "burstn"); b > 0 && len(ops) < n+24; b-- {
					ops = append(ops, hop{K: "ev", S: s, T: pick(rt, "tb", evTypeNames), P: s})
				}
			}
		case k < 82: // disp
			if !opened[s] || disped[s] {
				continue
			}
			disped[s] = true
			ops = append(ops, hop{K: "disp", S: s, P: s})
		case k < 92: // noise
			if !o.Orphans {
				continue
			}
			t := pick(rt, "nt", []string{"nosession", "unset", "unknown_ses", "login_unset", "login_nosession"})
			h := hop{K: "noise", T: t}
			if t == "unknown_ses" {
				h.S = 90 + rapid.IntRange(0, 3).Draw(rt, "us")
				// records of a session whose LOGIN record was never seen still
				// carry the pid of their sshd process, which may have a login waiting
				h.P = rapid.IntRange(0, nS+1).Draw(rt, "upid")
			}
			if t == "login_unset" || t == "login_nosession" {
				// a LOGIN record that carries no usable session id, from a pid that
				// may well be the pid of an ssh login (waiting or still to come)
				h.P = rapid.IntRange(1, nS+1).Draw(rt, "np")
			}
			ops = append(ops, h)
		default: // cleanup
			switch o.Cleanup {
			case "far":
				c := -1
				if rapid.IntRange(0, 3).Draw(rt, "cf") == 0 {
					c = farFuture
				}
				ops = append(ops, hop{K: "clean", Cut: c})
			case "between":
				c := rapid.IntRange(-1, i+1).Draw(rt, "cut")
				if c == i+1 {
					c = farFuture
				}
				ops = append(ops, hop{K: "clean", Cut: c})
			default:
				continue
			}
		}
	}
	return history{Ops: ops}
}

// evPid: the pid an event of session s carries — mostly that of the session's
// sshd process (PAM records), sometimes a child's or another session's sshd.
func evPid(rt *rapid.T, s, nS int) int {
	switch rapid.IntRange(0, 5).Draw(rt, "evpid") {
	case 0:
		return 0 // some other process (a child)
	case 1:
		return rapid.IntRange(1, nS+1).Draw(rt, "evpidother")
	default:
		return s
	}
}

// interleave merges sequences preserving each one's internal order.
func interleave(rt *rapid.T, label string, seqs ...[]hop) []hop {
	idx := make([]int, len(seqs))
	var out []hop
	for {
		var live []int
		for i := range seqs {
			if idx[i] < len(seqs[i]) {
				live = append(live, i)
			}
		}
		if len(live) == 0 {
			return out
		}
		c := live[rapid.IntRange(0, len(live)-1).Draw(rt, label)]
		out = append(out, seqs[c][idx[c]])
		idx[c]++
	}
}

// genReuseHistory (C09): session 1 is opened by pid 1 and ends; then pid 1 is
// reused: login2(pid 1) and open(session 2, pid 1) in either order, events of
// session 2, stray late events of session 1; bystander sessions 3.. interleaved.
func genReuseHistory(rt *rapid.T) history {
	nReuse := rapid.IntRange(1, 2).Draw(rt, "nReuse") // how many PIDs are reused
	var chains [][]hop
	for r := 0; r < nReuse; r++ {
		p := 1 + r
		s1, s2 := 1+2*r, 2+2*r
		// phase 1: records of s1 in kernel order, login1 at any position
		rec1 := []hop{{K: "open", S: s1, P: p}}
		for k := rapid.IntRange(0, 3).Draw(rt, "n1"); k > 0; k-- {
			rec1 = append(rec1, hop{K: "ev", S: s1, T: pick(rt, "t1", evTypeNames), P: p})
		}
		rec1 = append(rec1, hop{K: "disp", S: s1, P: p})
		if rapid.IntRange(0, 2).Draw(rt, "afterdisp") == 0 {
			// sshd logs USER_END after CRED_DISP for some PAM stacks (cron-like order)
			rec1 = append(rec1, hop{K: "ev", S: s1, T: pick(rt, "tad", []string{"USER_END", "USER_LOGIN", "SYSCALL"}), P: p})
		}
		pos := rapid.IntRange(0, len(rec1)).Draw(rt, "login1pos")
		if rapid.IntRange(0, 2).Draw(rt, "late1") == 0 {
			pos = len(rec1) // all records precede the login line (short session)
		}
		phase1 := append(append(append([]hop{}, rec1[:pos]...), hop{K: "login", P: p}), rec1[pos:]...)
		// phase 2: reuse
		rec2 := []hop{{K: "open", S: s2, P: p}}
		for k := rapid.IntRange(1, 3).Draw(rt, "n2"); k > 0; k-- {
			rec2 = append(rec2, hop{K: "ev", S: s2, T: pick(rt, "t2", evTypeNames), P: p})
		}
		if rapid.Bool().Draw(rt, "disp2") {
			rec2 = append(rec2, hop{K: "disp", S: s2, P: p})
		}
		var strays []hop
		for k := rapid.IntRange(0, 2).Draw(rt, "nstray"); k > 0; k-- {
			strays = append(strays, hop{K: "ev", S: s1, T: pick(rt, "ts", evTypeNames), P: p})
		}
		login2 := hop{K: "login", P: p}
		if rapid.IntRange(0, 2).Draw(rt, "sameacct") == 0 {
			// the same account reconnects from the same host (only the source port differs)
			login2.T = "same_account"
			for i := range phase1 {
				if phase1[i].K == "login" {
					phase1[i].T = "same_account"
				}
			}
		}
		phase2 := interleave(rt, "il2", rec2, []hop{login2}, strays)
		chain := append(phase1, phase2...)
		if pos < len(rec1) && rapid.IntRange(0, 3).Draw(rt, "skew") == 0 {
			// cross-stream skew: the second login line overtakes the first session's
			// disposal record (the first session is bound and still open at that moment)
			di, li := -1, -1
			for i, o := range chain {
				if o.K == "disp" && o.S == s1 {
					di = i
				}
				if o.K == "login" && i > di && di >= 0 && li < 0 {
					li = i
				}
			}
			if di >= 0 && li > di {
				l := chain[li]
				copy(chain[di+1:li+1], chain[di:li])
				chain[di] = l
			}
		}
		chains = append(chains, chain)
	}
	// bystanders: sessions 11.. with their own pids 11..
	nB := rapid.IntRange(0, 2).Draw(rt, "nB")
	for b := 0; b < nB; b++ {
		s := 11 + b
		rec := []hop{{K: "open", S: s, P: s}}
		for k := rapid.IntRange(0, 2).Draw(rt, "nb"); k > 0; k-- {
			rec = append(rec, hop{K: "ev", S: s, T: pick(rt, "tb", evTypeNames)})
		}
		if rapid.Bool().Draw(rt, "dispb") {
			rec = append(rec, hop{K: "disp", S: s})
		}
		chains = append(chains, interleave(rt, "ilb", rec, []hop{{K: "login", P: s}}))
	}
	return history{Ops: interleave(rt, "il", chains...)}
}

// ---------------------------------------------------------------------------
// Bounded-exhaustive enumeration: all well-formed histories up to maxLen over
// nS sessions (session i opened by pid i), one event type, optional noise and
// far-future cleanup, by increasing length. A history is well-formed when each
// login/open/disp occurs at most once per pid/session and a disp follows its
// open.

type enumOpts struct {
	NS      int
	MaxLen  int
	Noise   bool
	Cleanup bool // far-future cleanup symbol
	Early   bool // events before open / after disp allowed
}

func enumHistories(o enumOpts, shardI, shardN int, yield func(history) bool) {
	type st struct {
		logged, opened, disped uint8
	}
	var ops []hop
	count := 0
	var rec func(depth, target int, s st) bool
	rec = func(depth, target int, s st) bool {
		if depth == target {
			count++
			if count%shardN != shardI {
				return true
			}
			h := history{Ops: append([]hop{}, ops...)}
			return yield(h)
		}
		try := func(op hop, ns st) bool {
			ops = append(ops, op)
			ok := rec(depth+1, target, ns)
			ops = ops[:len(ops)-1]
			return ok
		}
		for i := 1; i <= o.NS; i++ {
			bit := uint8(1) << uint(i)
			if s.logged&bit == 0 {
				ns := s
				ns.logged |= bit
				if !try(hop{K: "login", P: i}, ns) {
					return false
				}
			}
			if s.opened&bit == 0 {
				ns := s
				ns.opened |= bit
				if !try(hop{K: "open", S: i, P: i}, ns) {
					return false
				}
			}
			if (s.opened&bit != 0 && s.disped&bit == 0) || o.Early {
				if !try(hop{K: "ev", S: i, T: "USER_START", P: i}, s) {
					return false
				}
			}
			if s.opened&bit != 0 && s.disped&bit == 0 {
				ns := s
				ns.disped |= bit
				if !try(hop{K: "disp", S: i, P: i}, ns) {
					return false
				}
			}
		}
		if o.Noise {
			if !try(hop{K: "noise", T: "unset"}, s) {
				return false
			}
			if !try(hop{K: "noise", T: "login_unset", P: 1}, s) {
				return false
			}
		}
		if o.Cleanup {
			if !try(hop{K: "clean", Cut: farFuture}, s) {
				return false
			}
		}
		return true
	}
	for l := 1; l <= o.MaxLen; l++ {
		if !rec(0, l, st{}) {
			return
		}
	}
}
