package vh

import (
	"encoding/json"
	"errors"
	"fmt"
	"sort"
	"sync"

	"github.com/metal-toolbox/auditevent"
)

// errInjected is the sentinel returned by a fault-injected Encode.
var errInjected = errors.New("verif: injected encoder failure")

// RecEv is one recorded Encode call.
type RecEv struct {
	Tick int64
	Ev   *auditevent.AuditEvent // deep copy taken at Encode time
	Ptr  *auditevent.AuditEvent // the pointer that was passed (identity checks)
}

// Rec implements auditevent.EventEncoder: it records a deep copy of every
// event, can fail the k-th call, and can call a hook before recording.
type Rec struct {
	mu      sync.Mutex
	evs     []RecEv
	calls   int
	FailAt  int // 1-based index of the Encode call that fails; 0 = never
	FailAll bool
	Hook    func() // called (outside the lock) at the start of every Encode
}

func (r *Rec) Encode(v any) error {
	if r.Hook != nil {
		r.Hook()
	}
	r.mu.Lock()
	defer r.mu.Unlock()
	r.calls++
	if r.FailAll || (r.FailAt != 0 && r.calls == r.FailAt) {
		return errInjected
	}
	e, ok := v.(*auditevent.AuditEvent)
	if !ok {
		return fmt.Errorf("verif: Encode called with %T", v)
	}
	// the production encoder is encoding/json: an event it cannot marshal is a write error
	if _, err := json.Marshal(e); err != nil {
		return fmt.Errorf("verif: event cannot be encoded as JSON: %w", err)
	}
	r.evs = append(r.evs, RecEv{Tick: nextTick(), Ev: deepCopyEvent(e), Ptr: e})
	return nil
}

func (r *Rec) Events() []RecEv {
	r.mu.Lock()
	defer r.mu.Unlock()
	out := make([]RecEv, len(r.evs))
	copy(out, r.evs)
	return out
}

func (r *Rec) Len() int {
	r.mu.Lock()
	defer r.mu.Unlock()
	return len(r.evs)
}

func (r *Rec) Calls() int {
	r.mu.Lock()
	defer r.mu.Unlock()
	return r.calls
}

func newWriter(r *Rec) *auditevent.EventWriter { return auditevent.NewAuditEventWriter(r) }

func copyAny(v any) any {
	switch x := v.(type) {
	case []string:
		c := make([]string, len(x))
		copy(c, x)
		return c
	case []any:
		c := make([]any, len(x))
		for i := range x {
			c[i] = copyAny(x[i])
		}
		return c
	case map[string]any:
		c := make(map[string]any, len(x))
		for k, vv := range x {
			c[k] = copyAny(vv)
		}
		return c
	case map[string]string:
		c := make(map[string]string, len(x))
		for k, vv := range x {
			c[k] = vv
		}
		return c
	default:
		return v
	}
}

func deepCopyEvent(e *auditevent.AuditEvent) *auditevent.AuditEvent {
	c := *e
	if e.Subjects != nil {
		c.Subjects = make(map[string]string, len(e.Subjects))
		for k, v := range e.Subjects {
			c.Subjects[k] = v
		}
	}
	if e.Target != nil {
		c.Target = make(map[string]string, len(e.Target))
		for k, v := range e.Target {
			c.Target[k] = v
		}
	}
	if e.Source.Extra != nil {
		c.Source.Extra = copyAny(e.Source.Extra).(map[string]any)
	}
	if e.Metadata.Extra != nil {
		c.Metadata.Extra = copyAny(e.Metadata.Extra).(map[string]any)
	}
	if e.Data != nil {
		d := make(json.RawMessage, len(*e.Data))
		copy(d, *e.Data)
		c.Data = &d
	}
	return &c
}

// flatten renders an event as a flat multimap leaf-key -> value(s). It does not
// depend on which sub-object a value lives in, only on its key and value.
// Scalars are rendered with %v; string slices joined by \x1f.
func flatten(e *auditevent.AuditEvent) map[string][]string {
	out := map[string][]string{}
	add := func(k string, v any) {
		var s string
		switch x := v.(type) {
		case string:
			s = x
		case []string:
			s = joinArgs(x)
		case []any:
			ss := make([]string, len(x))
			for i := range x {
				ss[i] = fmt.Sprint(x[i])
			}
			s = joinArgs(ss)
		default:
			s = fmt.Sprint(x)
		}
		out[k] = append(out[k], s)
	}
	add("type", e.Type)
	add("outcome", e.Outcome)
	add("component", e.Component)
	add("auditId", e.Metadata.AuditID)
	add("srctype", e.Source.Type)
	add("value", e.Source.Value)
	for k, v := range e.Subjects {
		add(k, v)
	}
	for k, v := range e.Target {
		add(k, v)
	}
	for k, v := range e.Source.Extra {
		add(k, v)
	}
	for k, v := range e.Metadata.Extra {
		add(k, v)
	}
	if e.Data != nil {
		var m map[string]any
		if err := json.Unmarshal(*e.Data, &m); err == nil {
			for k, v := range m {
				add(k, v)
			}
		} else {
			add("data", string(*e.Data))
		}
	}
	for k := range out {
		sort.Strings(out[k])
	}
	return out
}

func joinArgs(a []string) string {
	s := ""
	for i, x := range a {
		if i > 0 {
			s += "\x1f"
		}
		s += x
	}
	return s
}

// identityKey is a canonical rendering of the identity part of an event
// (subjects, source, target) used to compare identities by content.
func identityKey(e *auditevent.AuditEvent) string {
	type id struct {
		Subjects map[string]string
		Source   auditevent.EventSource
		Target   map[string]string
	}
	b, _ := json.Marshal(id{e.Subjects, e.Source, e.Target})
	return string(b)
}
