package vh

import (
	"fmt"
	"runtime"
	"sync"
	"time"

	"github.com/metal-toolbox/audito-maldito/internal/common"
)

// S-COOP — cooperative scheduler. With the `verif` hook every hooked mutex
// acquisition (and the recording encoder) is a yield point. Each logical
// thread runs in its own goroutine but exactly one runs at a time; at each
// yield the scheduler picks the next enabled thread from a choice sequence,
// so a schedule is a value: it can be drawn, enumerated (DFS) and replayed.

type cthread struct {
	id      int
	fn      func()
	wake    chan struct{}
	done    bool
	waitFor *sync.Mutex
	panicV  any
}

type coopResult struct {
	Choices     []int // the decisions taken (index into the enabled list) at points with >1 enabled thread
	Branching   []int // number of enabled threads at those points
	Preemptions int
	Switches    int
	Deadlock    bool
	DeadlockMsg string
	Inconcl     string // watchdog: a thread blocked on an un-instrumented primitive
	Trace       []int  // thread id chosen at every scheduling step
}

type coop struct {
	threads []*cthread
	owner   map[*sync.Mutex]int
	yielded chan struct{}
	current int
	active  bool
}

var (
	coopMu     sync.Mutex // one scheduler at a time per process
	coopActive *coop
)

const coopWatchdog = 30 * time.Second

// coopYieldAfterUnlock makes the release of a hooked mutex a scheduling point too.
var coopYieldAfterUnlock = false

// coopHook is installed as common.VerifSchedHook while a schedule runs.
func coopHook(mu *sync.Mutex, phase int) {
	c := coopActive
	if c == nil || !c.active {
		return
	}
	t := c.threads[c.current]
	if phase == 1 {
		if c.owner[mu] == t.id+1 {
			delete(c.owner, mu)
		}
		if coopYieldAfterUnlock {
			// also a scheduling point: whatever a thread does after releasing a
			// lock and before it next locks (or returns) can be overtaken
			t.waitFor = nil
			c.yielded <- struct{}{}
			<-t.wake
		}
		return
	}
	t.waitFor = mu
	c.yielded <- struct{}{}
	<-t.wake
}

// coopYield is a pure yield point (used by the recording encoder).
func coopYield() {
	c := coopActive
	if c == nil || !c.active {
		return
	}
	t := c.threads[c.current]
	t.waitFor = nil
	c.yielded <- struct{}{}
	<-t.wake
}

// chooser decides which of the n allowed threads runs next at decision point k
// (only called when n > 1). The allowed list is ordered with the previously
// running thread first when it is still enabled, so choice 0 never preempts.
type chooser func(k, n int) int

// runSchedule runs the thread functions under one schedule. maxPreempt < 0 =
// unbounded; otherwise, once the bound is used up, a still-enabled running
// thread is never preempted (the alternatives are not offered).
func runSchedule(fns []func(), choose chooser, maxPreempt int) coopResult {
	coopMu.Lock()
	defer coopMu.Unlock()
	c := &coop{owner: map[*sync.Mutex]int{}, yielded: make(chan struct{})}
	for i, fn := range fns {
		c.threads = append(c.threads, &cthread{id: i, fn: fn, wake: make(chan struct{})})
	}
	coopActive = c
	common.VerifSchedHook = coopHook
	defer func() {
		c.active = false
		common.VerifSchedHook = nil
		coopActive = nil
	}()
	for _, t := range c.threads {
		t := t
		go func() {
			<-t.wake
			defer func() {
				if r := recover(); r != nil {
					t.panicV = r
				}
				t.done = true
				c.yielded <- struct{}{}
			}()
			t.fn()
		}()
	}
	c.active = true
	res := coopResult{}
	prev := -1
	step := 0
	for {
		var enabled []int
		alive := 0
		for _, t := range c.threads {
			if t.done {
				continue
			}
			alive++
			if t.waitFor == nil || c.owner[t.waitFor] == 0 {
				enabled = append(enabled, t.id)
			}
		}
		if alive == 0 {
			break
		}
		if len(enabled) == 0 {
			res.Deadlock = true
			res.DeadlockMsg = "no enabled thread:"
			for _, t := range c.threads {
				if !t.done {
					res.DeadlockMsg += fmt.Sprintf(" thread %d waits for a mutex held by thread %d;", t.id, c.owner[t.waitFor]-1)
				}
			}
			// release the parked goroutines so they do not leak: let them run
			// freely (hooks inactive); a real deadlock then leaves them blocked,
			// which is reported, not waited for.
			c.active = false
			for _, t := range c.threads {
				if !t.done {
					select {
					case t.wake <- struct{}{}:
					default:
					}
				}
			}
			return res
		}
		// allowed list: previously running thread first (if still enabled)
		allowed := enabled
		prevEnabled := false
		for i, id := range enabled {
			if id == prev {
				prevEnabled = true
				allowed = append([]int{id}, append(append([]int{}, enabled[:i]...), enabled[i+1:]...)...)
			}
		}
		if prevEnabled && maxPreempt >= 0 && res.Preemptions >= maxPreempt {
			allowed = allowed[:1]
		}
		pick := 0
		if len(allowed) > 1 {
			pick = choose(len(res.Choices), len(allowed))
			if pick < 0 || pick >= len(allowed) {
				pick = 0
			}
			res.Choices = append(res.Choices, pick)
			res.Branching = append(res.Branching, len(allowed))
		}
		id := allowed[pick]
		if prev >= 0 && id != prev {
			res.Switches++
			if prevEnabled {
				res.Preemptions++
			}
		}
		t := c.threads[id]
		if t.waitFor != nil {
			c.owner[t.waitFor] = t.id + 1
			t.waitFor = nil
		}
		c.current = id
		res.Trace = append(res.Trace, id)
		t.wake <- struct{}{}
		select {
		case <-c.yielded:
		case <-time.After(coopWatchdog):
			res.Inconcl = fmt.Sprintf("thread %d neither yielded nor finished within %v (blocked on an un-instrumented primitive?)", id, coopWatchdog)
			c.active = false
			return res
		}
		if t.panicV != nil {
			panic(t.panicV)
		}
		prev = id
		step++
	}
	return res
}

// dfsSchedules enumerates schedules depth-first (stateless: each schedule
// re-runs the program from scratch). mk builds a fresh program instance and
// returns its thread functions plus a finish callback that evaluates the run.
// maxPreempt < 0 = unbounded. budget bounds the number of schedules; returns
// (schedules run, exhausted?, first error, its schedule).
func dfsSchedules(mk func() ([]func(), func(coopResult) error), maxPreempt, budget int) (int, bool, error, coopResult) {
	var prefix []int
	runs := 0
	for {
		fns, finish := mk()
		choose := func(k, n int) int {
			if k < len(prefix) {
				return prefix[k]
			}
			return 0
		}
		res := runSchedule(fns, choose, maxPreempt)
		runs++
		if res.Inconcl != "" {
			return runs, false, &infraError{res.Inconcl}, res
		}
		if err := finish(res); err != nil {
			return runs, false, err, res
		}
		next := nextPrefix(res)
		if next == nil {
			return runs, true, nil, res
		}
		prefix = next
		if budget > 0 && runs >= budget {
			return runs, false, nil, res
		}
	}
}

// nextPrefix computes the next DFS prefix (odometer over the recorded
// branching factors of the last run).
func nextPrefix(res coopResult) []int {
	ch := append([]int{}, res.Choices...)
	for i := len(ch) - 1; i >= 0; i-- {
		if ch[i]+1 < res.Branching[i] {
			return append(ch[:i:i], ch[i]+1)
		}
	}
	return nil
}

// freeRunHook perturbs real goroutine scheduling at the hook points (mode d).
type freeRun struct {
	mu    sync.Mutex
	state uint64
}

func (f *freeRun) next() uint64 {
	f.mu.Lock()
	defer f.mu.Unlock()
	f.state += 0x9e3779b97f4a7c15
	z := f.state
	z = (z ^ (z >> 30)) * 0xbf58476d1ce4e5b9
	z = (z ^ (z >> 27)) * 0x94d049bb133111eb
	return z ^ (z >> 31)
}

func (f *freeRun) hook(_ *sync.Mutex, phase int) {
	if phase != 0 {
		return
	}
	switch r := f.next() % 16; {
	case r < 6:
	case r < 13:
		runtime.Gosched()
	default:
		time.Sleep(time.Duration(f.next()%40) * time.Microsecond)
	}
}
