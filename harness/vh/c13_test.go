package vh

import (
	"bytes"
	"context"
	"fmt"
	"os"
	"runtime/pprof"
	"strings"
	"sync/atomic"
	"syscall"
	"testing"
	"time"

	"github.com/prometheus/client_golang/prometheus"
	"go.uber.org/zap"
	"pgregory.net/rapid"

	"github.com/metal-toolbox/audito-maldito/ingesters/auditlog"
	"github.com/metal-toolbox/audito-maldito/ingesters/namedpipe"
	"github.com/metal-toolbox/audito-maldito/ingesters/syslog"
	"github.com/metal-toolbox/audito-maldito/internal/common"
	"github.com/metal-toolbox/audito-maldito/internal/health"
	"github.com/metal-toolbox/audito-maldito/internal/metrics"
	"github.com/metal-toolbox/audito-maldito/processors/sshd"
)

// C13 — workers stop promptly on cancellation in every blocking state.

type c13Case struct {
	Worker string `json:"worker"` // namedpipe | syslog | auditlog | read
	State  string `json:"state"`  // wait_open | idle_read | blocked_login | full_buffer | idle_select | busy_read
	Cap    int    `json:"cap"`    // downstream buffer capacity (full_buffer)
	Pre    int    `json:"pre"`    // lines of pre-traffic delivered before the blocking state
	DelayU int    `json:"delay_us"`
	Gone   string `json:"gone,omitempty"` // wait_open: "" | removed | replaced — what happens to the pipe's path while the worker waits for a writer
}

var c13States = []struct{ w, s string }{
	{"namedpipe", "wait_open"}, {"namedpipe", "idle_read"},
	{"syslog", "wait_open"}, {"syslog", "idle_read"}, {"syslog", "blocked_login"},
	{"auditlog", "wait_open"}, {"auditlog", "idle_read"}, {"auditlog", "full_buffer"},
	{"read", "idle_select"}, {"read", "busy_read"}, {"read", "inflight_failing_sink"}, {"read", "inflight"},
}

func genC13(rt *rapid.T) c13Case {
	ws := pick(rt, "ws", c13States)
	c := c13Case{Worker: ws.w, State: ws.s, Cap: pick(rt, "cap", []int{0, 1, 7, 100}), Pre: rapid.IntRange(0, 20).Draw(rt, "pre"),
		DelayU: pick(rt, "delayclass", []int{0, 1, 10, 100, 1000}) * rapid.IntRange(0, 3).Draw(rt, "delay")}
	if ws.s == "wait_open" {
		c.Gone = pick(rt, "gone", []string{"", "", "removed", "replaced"})
	}
	return c
}

const c13Bound = 5 * time.Second

func goroutineDump(filter string) string {
	var buf bytes.Buffer
	_ = pprof.Lookup("goroutine").WriteTo(&buf, 1)
	out := []string{}
	for _, blk := range strings.Split(buf.String(), "\n\n") {
		if strings.Contains(blk, filter) {
			out = append(out, blk)
		}
	}
	s := strings.Join(out, "\n\n")
	if len(s) > 3000 {
		s = s[:3000]
	}
	return s
}

func waitUntil(d time.Duration, cond func() bool) bool {
	deadline := time.Now().Add(d)
	for time.Now().Before(deadline) {
		if cond() {
			return true
		}
		time.Sleep(200 * time.Microsecond)
	}
	return cond()
}

func execC13(c c13Case) Outcome {
	if c.Worker == "read" {
		return execC13Read(c)
	}
	dir, path, err := mkfifoDir()
	if err != nil {
		panic(&infraError{err.Error()})
	}
	defer os.RemoveAll(dir)
	ctx, cancel := context.WithCancel(context.Background())
	defer cancel()
	if c.State == "wait_open" && c.DelayU < 0 {
		cancel() // context already cancelled when the worker starts
	}
	npi := namedpipe.NewNamedPipeIngester(zap.NewNop().Sugar(), health.NewHealth())
	var delivered int64 // callbacks / downstream sends / events observed
	done := make(chan error, 1)
	filter := "namedpipe"
	var line string
	var downstream chan string
	logins := make(chan common.RemoteUserLogin) // nobody receives: unready correlator
	rec := &Rec{}
	switch c.Worker {
	case "namedpipe":
		line = "record\n"
		go func() {
			done <- npi.Ingest(ctx, path, '\n', func(context.Context, string) error { atomic.AddInt64(&delivered, 1); return nil })
		}()
	case "syslog":
		line = "77 Failed password for x from 1.2.3.4 port 22 ssh2\n"
		mp := metrics.NewPrometheusMetricsProviderForRegisterer(prometheus.NewRegistry())
		proc := sshd.NewSshdProcessor(ctx, logins, vhNode, vhMachineID, newWriter(rec), mp)
		sli := syslog.NewSyslogIngester(path, proc, npi)
		go func() { done <- sli.Ingest(ctx) }()
		filter = "syslog"
	case "auditlog":
		line = "type=USER_ACCT msg=audit(1700000000.001:1): pid=1 uid=0 auid=0 ses=1 msg='op=x res=success'\n"
		downstream = make(chan string, c.Cap)
		if c.State != "full_buffer" {
			// a live consumer (the audit processor) drains the buffer
			go func() {
				for {
					select {
					case <-downstream:
						atomic.AddInt64(&delivered, 1)
					case <-ctx.Done():
						return
					}
				}
			}()
		}
		ali := auditlog.NewAuditLogIngester(path, downstream, npi)
		go func() { done <- ali.Ingest(ctx) }()
		filter = "auditlog"
	}
	count := func() int64 {
		switch c.Worker {
		case "syslog":
			return int64(rec.Len())
		case "auditlog":
			if c.State == "full_buffer" {
				return int64(len(downstream))
			}
		}
		return atomic.LoadInt64(&delivered)
	}

	var w *os.File
	relPath := path
	if c.State == "wait_open" && c.Gone != "" {
		// a second name for the same FIFO, so that the harness can still release an
		// open(2) that is blocked on it after the path has gone
		relPath = path + ".link"
		if err := os.Link(path, relPath); err != nil {
			panic(&infraError{err.Error()})
		}
	}
	releaseOpen := func() {
		// release a reader blocked in open(2): a blocking write-open returns at
		// once when a reader is waiting; otherwise ENXIO with O_NONBLOCK.
		if f, err := os.OpenFile(relPath, os.O_WRONLY|0o4000 /* O_NONBLOCK */, 0); err == nil {
			f.Close()
		}
	}
	labels := []string{"worker:" + c.Worker, "state:" + c.State}
	if c.Gone != "" {
		labels = append(labels, "pipe_path:"+c.Gone)
	}
	nt := false
	if c.State != "wait_open" {
		w, err = os.OpenFile(path, os.O_WRONLY, 0)
		if err != nil {
			panic(&infraError{err.Error()})
		}
		defer w.Close()
		pre := c.Pre
		if c.State == "full_buffer" {
			// the consumer has stopped: fill the buffer, then one more record blocks
			pre = c.Cap + 1 + c.Pre%3
			nt = true
		}
		for i := 0; i < pre; i++ {
			l := line
			if c.Worker == "syslog" {
				// distinct records (a connection never repeats pid, port and name at once here)
				l = fmt.Sprintf("%d Failed password for x%d from 1.2.3.4 port %d ssh2\n", 77+i, i, 2000+i)
			}
			if _, err := w.WriteString(l); err != nil {
				return Outcome{Skip: "writer_failed_before_the_blocking_state"}
			}
		}
		switch c.State {
		case "full_buffer":
			if !waitUntil(10*time.Second, func() bool { return len(downstream) == c.Cap }) {
				// (whether records are delivered at all is C12's concern)
				return Outcome{Skip: "blocking_state_not_reached:buffer_never_filled"}
			}
		case "blocked_login":
			nt = true
			// any of the four accepted-login record shapes (each has its own hand-over site)
			accepted := []string{
				"4242 Accepted password for u from 1.2.3.4 port 22 ssh2\n",
				"4242 Accepted publickey for u from 1.2.3.4 port 22 ssh2: ED25519 SHA256:0123456789abcdefghijklmnopqrstuvwxyzABCDEFG\n",
				"4242 Accepted publickey for u from 1.2.3.4 port 22 ssh2: ED25519 SHA256:0123456789abcdefghijklmnopqrstuvwxyzABCDEFG trailing text\n",
				"4242 Accepted publickey for u from 1.2.3.4 port 22 ssh2: ED25519-CERT SHA256:0123456789abcdefghijklmnopqrstuvwxyzABCDEFG ID u@host (serial 7) CA RSA SHA256:abcdefghijklmnopqrstuvwxyz0123456789ABCDEFG\n",
			}[(c.Pre+c.Cap+c.DelayU)%4]
			if _, err := w.WriteString(accepted); err != nil {
				return fail("writer: %v", err)
			}
			// wait until the worker is in (or about to enter) the hand-off: normally the
			// event of the accepted line is written first. Whether it is written before
			// or after the hand-off is not this property's concern, so a missing event
			// only shortens the wait.
			target := c.Pre + 1
			if !waitUntil(2*time.Second, func() bool { return rec.Len() >= target }) {
				labels = append(labels, "accepted_event_not_written_before_handoff")
			}
		default:
			target := int64(pre)
			if !waitUntil(10*time.Second, func() bool { return count() == target }) {
				// (whether records are delivered at all is C12's / C06's concern)
				return Outcome{Skip: "blocking_state_not_reached:pre_traffic_not_delivered"}
			}
		}
	}
	if c.DelayU > 0 {
		time.Sleep(time.Duration(c.DelayU) * time.Microsecond)
	}
	if c.DelayU >= 0 {
		select {
		case err := <-done:
			return fail("worker returned (%v) before cancellation in state %s", err, c.State)
		default:
		}
	}
	if c.State == "wait_open" && c.Gone != "" {
		// log rotation / a restarted producer: the path the worker waits on disappears
		// (and may come back as a different FIFO) while nobody has connected yet
		nt = true
		if c.DelayU >= 0 {
			time.Sleep(2 * time.Millisecond) // let the worker reach open(2)
		}
		if err := os.Remove(path); err != nil {
			panic(&infraError{err.Error()})
		}
		if c.Gone == "replaced" {
			if err := syscall.Mkfifo(path, 0o600); err != nil {
				panic(&infraError{err.Error()})
			}
		}
	}
	t0 := time.Now()
	cancel()
	var ret error
	select {
	case ret = <-done:
	case <-time.After(c13Bound):
		dump := goroutineDump(filter)
		releaseOpen()
		if downstream != nil {
			// unblock the stuck sender so the goroutine does not leak further
			go func() {
				for range downstream {
				}
			}()
		}
		return fail("%s worker in state %s (cap %d) did not return within %v of cancellation; parked goroutines:\n%s", c.Worker, c.State, c.Cap, c13Bound, dump)
	}
	lat := time.Since(t0)
	at := count()
	if c.State == "wait_open" {
		releaseOpen()
	}
	_ = ret
	// the producer keeps writing after the worker has returned: none of it may be delivered
	if c.State == "idle_read" || (c.State == "wait_open" && c.Gone == "") {
		wr := w
		if wr == nil {
			if f, e := os.OpenFile(path, os.O_WRONLY|0o4000 /* O_NONBLOCK */, 0); e == nil {
				wr = f
				defer f.Close()
			}
		}
		if wr != nil {
			_, _ = wr.WriteString(line)
			if c.Worker == "syslog" {
				_, _ = wr.WriteString("4243 Accepted password for late from 1.2.3.4 port 22 ssh2\n")
			}
		}
	}
	time.Sleep(15 * time.Millisecond)
	if after := count(); after != at {
		return fail("%s worker delivered %d more records after it returned (state %s)", c.Worker, after-at, c.State)
	}
	select {
	case l := <-logins:
		return fail("a login (pid %d) was handed over after the worker returned", l.PID)
	default:
	}
	if lat > 100*time.Millisecond {
		labels = append(labels, "latency>100ms")
	}
	return Outcome{NT: nt, Labels: labels}
}

func execC13Read(c c13Case) Outcome {
	rig := newReadRig(nil)
	labels := []string{"worker:read", "state:" + c.State}
	l := loginFor(0, hop{K: "login", P: 1})
	if err := rig.login(l); err != nil {
		return fail("login: %v", rig.exitErr)
	}
	h := history{}
	for i := 0; i < c.Pre; i++ {
		if i == 0 {
			h.Ops = append(h.Ops, hop{K: "open", S: 1, P: 1})
		} else {
			h.Ops = append(h.Ops, hop{K: "ev", S: 1, T: "USER_START"})
		}
	}
	for i, o := range h.Ops {
		for _, ln := range audEventForOp(i+1, o).Lines {
			if err := rig.line(ln); err != nil {
				return fail("Read exited: %v", rig.exitErr)
			}
		}
	}
	if c.State == "inflight_failing_sink" {
		// a correlated session with several incomplete kernel events in flight
		// (SYSCALL record seen, PROCTITLE not yet) while the event sink has
		// started failing: returning flushes them through the correlator
		if c.Pre == 0 {
			for _, ln := range audEventForOp(1, hop{K: "open", S: 1, P: 1}).Lines {
				if err := rig.line(ln); err != nil {
					return fail("Read exited: %v", rig.exitErr)
				}
			}
		}
		if err := rig.auditBarrier(); err != nil {
			return fail("Read exited: %v", rig.exitErr)
		}
		rig.rec.mu.Lock()
		rig.rec.FailAll = true
		rig.rec.mu.Unlock()
		n := 2 + c.Cap%4
		for i := 0; i < n; i++ {
			ae := audEventForOp(500+i, hop{K: "ev", S: 1, T: "SYSCALL", P: 1})
			if err := rig.line(ae.Lines[0]); err != nil { // the SYSCALL record only
				// the processor stopped by itself on the failing sink (fail-stop): the
				// blocking state was not reached, nothing to judge here
				return Outcome{Skip: "read_stopped_on_the_failing_sink_before_cancellation"}
			}
		}
		if err := rig.auditBarrier(); err != nil {
			return Outcome{Skip: "read_stopped_on_the_failing_sink_before_cancellation"}
		}
		time.Sleep(time.Duration(c.DelayU) * time.Microsecond)
		rig.cancel()
		if _, ok := rig.waitExit(c13Bound); !ok {
			return fail("auditd.Read with %d incomplete events in flight and a failing event sink did not return within %v of cancellation:\n%s", n, c13Bound, goroutineDump("auditd"))
		}
		return Outcome{NT: true, Labels: labels}
	}
	if c.State == "inflight" {
		// incomplete kernel events of a correlated session are in flight (healthy
		// sink) when the cancellation arrives: whatever returning flushes must be
		// delivered before Read returns, nothing afterwards
		if c.Pre == 0 {
			for _, ln := range audEventForOp(1, hop{K: "open", S: 1, P: 1}).Lines {
				if err := rig.line(ln); err != nil {
					return fail("Read exited: %v", rig.exitErr)
				}
			}
		}
		n := 20 + 30*(c.Cap%5)
		for i := 0; i < n; i++ {
			ae := audEventForOp(500+i, hop{K: "ev", S: 1, T: "SYSCALL", P: 1})
			if err := rig.line(ae.Lines[0]); err != nil { // the SYSCALL record only
				return fail("Read exited: %v", rig.exitErr)
			}
		}
		if err := rig.auditBarrier(); err != nil {
			return fail("Read exited: %v", rig.exitErr)
		}
		time.Sleep(time.Duration(c.DelayU) * time.Microsecond)
		rig.cancel()
		if _, ok := rig.waitExit(c13Bound); !ok {
			return fail("auditd.Read with %d incomplete events in flight did not return within %v of cancellation:\n%s", n, c13Bound, goroutineDump("auditd"))
		}
		at := rig.rec.Len()
		time.Sleep(30 * time.Millisecond)
		if after := rig.rec.Len(); after != at {
			return fail("auditd.Read delivered %d more events to the sink after it had returned (%d in-flight events at cancellation)", after-at, n)
		}
		return Outcome{NT: true, Labels: labels}
	}
	if c.State == "busy_read" {
		// keep a feeder running while the cancellation arrives
		stop := make(chan struct{})
		defer close(stop)
		go func() {
			for i := 0; ; i++ {
				ae := audEventForOp(1000+i, hop{K: "ev", S: 1, T: "USER_START"})
				select {
				case rig.audits <- ae.Lines[0]:
				case <-stop:
					return
				}
			}
		}()
	} else if err := rig.auditBarrier(); err != nil {
		return fail("Read exited: %v", rig.exitErr)
	}
	time.Sleep(time.Duration(c.DelayU) * time.Microsecond)
	rig.cancel()
	err, ok := rig.waitExit(c13Bound)
	if !ok {
		return fail("auditd.Read in state %s did not return within %v of cancellation:\n%s", c.State, c13Bound, goroutineDump("auditd"))
	}
	_ = err
	// Read flushes the reassembler on return (deferred Close); that is part of
	// returning. Afterwards nothing more may be emitted.
	time.Sleep(2 * time.Millisecond)
	at := rig.rec.Len()
	time.Sleep(20 * time.Millisecond)
	if after := rig.rec.Len(); after != at {
		return fail("auditd.Read emitted %d more events after it returned", after-at)
	}
	return Outcome{NT: c.State == "busy_read", Labels: labels}
}

func TestC13_Cancel(t *testing.T) {
	RunProp(t, "c13.cancel", genC13, retryFlaky("c13.cancel", execC13))
}

// every (worker, state, capacity) combination once, deterministically
func TestC13_Enum(t *testing.T) {
	si, sn := shard()
	n := 0
	RunEnum(t, "c13.enum", func(y func(c13Case) bool) {
		for _, ws := range c13States {
			caps := []int{0}
			if ws.s == "full_buffer" {
				caps = []int{0, 1, 7, 100}
			}
			for _, cp := range caps {
				pres := []int{0, 3}
				if ws.s == "blocked_login" {
					pres = []int{0, 1, 2, 3} // one per accepted-login record shape
				}
				for _, pre := range pres {
					n++
					if n%sn != si {
						continue
					}
					if !y(c13Case{Worker: ws.w, State: ws.s, Cap: cp, Pre: pre, DelayU: 500}) {
						return
					}
				}
			}
		}
		// cancellation that arrives at once / before the worker even starts
		for _, w := range []string{"namedpipe", "syslog", "auditlog"} {
			for _, d := range []int{0, -1} {
				for rep := 0; rep < 4; rep++ {
					n++
					if n%sn != si {
						continue
					}
					if !y(c13Case{Worker: w, State: "wait_open", DelayU: d, Pre: rep}) {
						return
					}
				}
			}
			// the pipe's path disappears / is replaced while the worker waits for a writer
			for _, g := range []string{"removed", "replaced"} {
				n++
				if n%sn != si {
					continue
				}
				if !y(c13Case{Worker: w, State: "wait_open", DelayU: 500, Gone: g}) {
					return
				}
			}
		}
		// a worker that has been blocked for a long time (thorough): longer than
		// any plausible internal timer
		{
			long := []struct{ w, s string }{{"syslog", "blocked_login"}}
			delays := []int{5600000}
			if thorough() {
				long = []struct{ w, s string }{{"syslog", "blocked_login"}, {"auditlog", "full_buffer"}, {"namedpipe", "idle_read"}, {"read", "idle_select"}}
				delays = []int{1200000, 5600000}
			}
			for _, ws := range long {
				for _, d := range delays {
					n++
					if n%sn != si {
						continue
					}
					if !y(c13Case{Worker: ws.w, State: ws.s, Cap: 1, Pre: 1, DelayU: d}) {
						return
					}
				}
			}
		}
	}, retryFlaky("c13.enum", execC13))
	addNote("c13.enum", fmt.Sprintf("every worker x blocking state x capacity {0,1,7,100} x pre-traffic {0,3}, shard %d/%d", si, sn))
}
