// Package vh is the verification harness for audito-maldito. It is compiled
// *virtually* inside the audito-maldito module (go build -overlay), so it may
// import the module's internal packages. Nothing here is ever written to /repo.
package vh

import (
	"encoding/json"
	"fmt"
	"hash/fnv"
	"os"
	"runtime"
	"runtime/debug"
	"sort"
	"strconv"
	"strings"
	"sync"
	"sync/atomic"
	"testing"

	"pgregory.net/rapid"
)

// ---------------------------------------------------------------------------
// Statistics: what a run covered (becomes the evidence file).

const maxSamples = 8

type stepStats struct {
	Evaluations int            `json:"evaluations"`
	NonTrivial  int            `json:"nontrivial"`
	Labels      map[string]int `json:"labels"`
	Excluded    map[string]int `json:"excluded"`
	NTHashes    []uint64       `json:"nt_hashes"`
	Samples     []any          `json:"samples"`
	Notes       []string       `json:"notes"`
	Exhaustive  *bool          `json:"exhaustive,omitempty"`
	Extra       map[string]int `json:"extra"`

	ntSet map[uint64]struct{}
}

var (
	statsMu  sync.Mutex
	allStats = map[string]*stepStats{}
)

func statsFor(step string) *stepStats {
	s := allStats[step]
	if s == nil {
		s = &stepStats{Labels: map[string]int{}, Excluded: map[string]int{}, Extra: map[string]int{}, ntSet: map[uint64]struct{}{}}
		allStats[step] = s
	}
	return s
}

func hash64(b []byte) uint64 {
	h := fnv.New64a()
	_, _ = h.Write(b)
	return h.Sum64()
}

// Outcome is what executing one generated case against its oracle yields.
type Outcome struct {
	Err    error    // non-nil = the property is violated by this case
	NT     bool     // the case is non-trivial by the property's stated rule
	Labels []string // classification labels (for the distribution table)
	Skip   string   // non-empty: case excluded by construction (counted under this key)
}

func fail(format string, a ...any) Outcome { return Outcome{Err: fmt.Errorf(format, a...)} }

// record adds one executed case to the statistics of a step.
func record(step string, c any, o Outcome) {
	statsMu.Lock()
	defer statsMu.Unlock()
	s := statsFor(step)
	if o.Skip != "" {
		s.Excluded[o.Skip]++
		return
	}
	s.Evaluations++
	for _, l := range o.Labels {
		s.Labels[l]++
	}
	if o.NT {
		s.NonTrivial++
		b, err := json.Marshal(c)
		if err == nil {
			h := hash64(b)
			if _, dup := s.ntSet[h]; !dup {
				// the hash set is capped to bound memory and file size; the cap is
				// far above what is needed to show distinctness and is reported.
				if len(s.ntSet) < 200000 {
					s.ntSet[h] = struct{}{}
				}
				if len(s.Samples) < maxSamples {
					var v any
					_ = json.Unmarshal(b, &v)
					s.Samples = append(s.Samples, v)
				}
			}
		}
	}
}

func addExtra(step, key string, n int) {
	statsMu.Lock()
	defer statsMu.Unlock()
	statsFor(step).Extra[key] += n
}

func addNote(step, note string) {
	statsMu.Lock()
	defer statsMu.Unlock()
	s := statsFor(step)
	if len(s.Notes) < 50 {
		s.Notes = append(s.Notes, note)
	}
}

func setExhaustive(step string, v bool) {
	statsMu.Lock()
	defer statsMu.Unlock()
	statsFor(step).Exhaustive = &v
}

func flushStats() {
	path := os.Getenv("VERIF_STATS")
	if path == "" || os.Getenv("VERIF_FUZZ") != "" {
		return
	}
	statsMu.Lock()
	defer statsMu.Unlock()
	for _, s := range allStats {
		s.NTHashes = s.NTHashes[:0]
		for h := range s.ntSet {
			s.NTHashes = append(s.NTHashes, h)
		}
		sort.Slice(s.NTHashes, func(i, j int) bool { return s.NTHashes[i] < s.NTHashes[j] })
	}
	b, _ := json.Marshal(allStats)
	_ = os.WriteFile(path, b, 0o644)
}

// ---------------------------------------------------------------------------
// Failing-case persistence and replay.

type failFile struct {
	Step  string          `json:"step"`
	Error string          `json:"error"`
	Case  json.RawMessage `json:"case"`
}

func writeFail(step string, c any, err error) {
	path := os.Getenv("VERIF_FAILCASE")
	if path == "" {
		return
	}
	cb, _ := json.Marshal(c)
	b, _ := json.MarshalIndent(failFile{Step: step, Error: err.Error(), Case: cb}, "", " ")
	_ = os.WriteFile(path, b, 0o644)
}

func loadReplay(step string, into any) (bool, error) {
	path := os.Getenv("VERIF_REPLAY")
	if path == "" {
		return false, nil
	}
	b, err := os.ReadFile(path)
	if err != nil {
		return true, err
	}
	var ff failFile
	if err := json.Unmarshal(b, &ff); err != nil {
		return true, err
	}
	if ff.Step != step {
		return false, nil
	}
	return true, json.Unmarshal(ff.Case, into)
}

func replayMode() bool { return os.Getenv("VERIF_REPLAY") != "" }

// safeExec runs exec and converts a panic in the code under test into a
// violation (no property here tolerates a crash).
func safeExec[C any](exec func(C) Outcome, c C) (o Outcome) {
	defer func() {
		if r := recover(); r != nil {
			if ie, ok := r.(*infraError); ok {
				infraExit(ie.msg)
			}
			o = Outcome{Err: fmt.Errorf("panic: %v\n%s", r, debug.Stack())}
		}
	}()
	return exec(c)
}

// RunProp is the one way a generated property is run. The whole case is drawn
// first as a plain value, then executed; on failure the case is saved as JSON
// (rapid re-executes the minimal case last, so the last file written is the
// shrunk one). With VERIF_REPLAY set the saved case is executed directly,
// bypassing the generator library.
func RunProp[C any](t *testing.T, step string, gen func(*rapid.T) C, exec func(C) Outcome) {
	t.Helper()
	if replayMode() {
		var c C
		mine, err := loadReplay(step, &c)
		if !mine {
			t.Skip("replay file is for another step")
		}
		if err != nil {
			t.Fatalf("cannot load replay: %v", err)
		}
		o := safeExec(exec, c)
		record(step, c, o)
		if o.Err != nil {
			writeFail(step, c, o.Err)
			t.Fatalf("REPLAY-FAIL step=%s: %v", step, o.Err)
		}
		return
	}
	rapid.Check(t, func(rt *rapid.T) {
		c := gen(rt)
		o := safeExec(exec, c)
		record(step, c, o)
		if o.Err != nil {
			writeFail(step, c, o.Err)
			rt.Fatalf("step=%s: %v", step, o.Err)
		}
	})
}

// RunEnum runs exec over an explicitly enumerated case list/stream (bounded
// exhaustive parts). next returns false when the space is exhausted. The first
// failing case (enumeration is by increasing size) is saved and reported.
func RunEnum[C any](t *testing.T, step string, each func(yield func(C) bool), exec func(C) Outcome) {
	t.Helper()
	if replayMode() {
		var c C
		mine, err := loadReplay(step, &c)
		if !mine {
			t.Skip("replay file is for another step")
		}
		if err != nil {
			t.Fatalf("cannot load replay: %v", err)
		}
		o := safeExec(exec, c)
		record(step, c, o)
		if o.Err != nil {
			writeFail(step, c, o.Err)
			t.Fatalf("REPLAY-FAIL step=%s: %v", step, o.Err)
		}
		return
	}
	failed := false
	each(func(c C) bool {
		o := safeExec(exec, c)
		record(step, c, o)
		if o.Err != nil {
			writeFail(step, c, o.Err)
			t.Errorf("step=%s: %v", step, o.Err)
			failed = true
			return false
		}
		return true
	})
	if !failed {
		setExhaustive(step, true)
	}
}

// infraError marks harness/infrastructure problems (never a violation): the
// process exits with status 3, which the driver maps to "inconclusive".
type infraError struct{ msg string }

func (e *infraError) Error() string { return "INFRA: " + e.msg }

func infraExit(msg string) {
	fmt.Fprintf(os.Stderr, "INFRA: %s\n", msg)
	if os.Getenv("VERIF_INFRA_DUMP") != "" {
		buf := make([]byte, 1<<20)
		fmt.Fprintf(os.Stderr, "%s\n", buf[:runtime.Stack(buf, true)])
	}
	flushStats()
	os.Exit(3)
}

// shard returns (index, count) for enumerators split over processes.
func shard() (int, int) {
	v := os.Getenv("VERIF_SHARD")
	if v == "" {
		return 0, 1
	}
	parts := strings.Split(v, "/")
	i, _ := strconv.Atoi(parts[0])
	n, _ := strconv.Atoi(parts[1])
	if n <= 0 {
		return 0, 1
	}
	return i, n
}

func envInt(name string, def int) int {
	if v := os.Getenv(name); v != "" {
		if n, err := strconv.Atoi(v); err == nil {
			return n
		}
	}
	return def
}

func thorough() bool { return os.Getenv("VERIF_TIER") == "thorough" }

// logical clock shared by recorders and receivers (order token, not time).
var tick int64

func nextTick() int64 { return atomic.AddInt64(&tick, 1) }

