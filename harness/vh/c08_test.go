package vh

import (
	"bytes"
	"fmt"
	"io"
	"net"
	"os"
	"strings"
	"sync/atomic"
	"sync"
	"syscall"
	"testing"
	"time"

	"pgregory.net/rapid"
)

// C08 — fail-stop: a worker failure or termination signal ends the whole daemon.

type c08Case struct {
	Cause   string `json:"cause"` // sshd_eof | audit_eof | malformed_audit | write_error | sshd_not_fifo:<k> | audit_not_fifo:<k> | sigterm | sigint
	Load    string `json:"load"`  // idle | saturated
	DelayMs int    `json:"delay_ms"`
	Prefix  int    `json:"prefix"`  // well-formed sessions delivered before the injection
	Flags   string `json:"flags"`   // "" | audit-metrics | healthz | metrics (optional daemon features)
	Connect string `json:"connect"` // "" both producers connected | sshd_only | audit_only | none (for signals / EOF of the connected pipe)
}

var c08Causes = []string{"sshd_eof", "audit_eof", "malformed_audit", "malformed_audit_huge", "malformed_audit_then_login", "audit_eof_then_login", "write_error", "write_error_after_start", "write_error_at_login_record",
	"sshd_not_fifo:regular", "sshd_not_fifo:missing", "sshd_not_fifo:dir",
	"audit_not_fifo:regular", "audit_not_fifo:missing", "audit_not_fifo:dir", "sigterm", "sigint"}

const c08Bound = 15 * time.Second

func isMisconfig(cause string) bool { return len(cause) > 9 && (cause[:9] == "sshd_not_" || cause[:10] == "audit_not_") }

func genC08(rt *rapid.T) c08Case {
	c := c08Case{Cause: pick(rt, "cause", c08Causes), Load: pick(rt, "load", []string{"idle", "saturated"}),
		DelayMs: rapid.IntRange(0, 300).Draw(rt, "delay"), Prefix: rapid.IntRange(0, 5).Draw(rt, "prefix")}
	c.Flags = pick(rt, "flags", []string{"", "", "audit-metrics", "healthz", "metrics", "log-debug"})
	partialOK := map[string]bool{"sigterm": true, "sigint": true, "sshd_eof": true, "audit_eof": true, "malformed_audit": true}
	if partialOK[c.Cause] && rapid.IntRange(0, 3).Draw(rt, "partial") == 0 {
		c.Connect = pick(rt, "connect", []string{"sshd_only", "audit_only", "none"})
		switch {
		case c.Cause == "sshd_eof" && c.Connect != "sshd_only":
			c.Connect = "sshd_only"
		case (c.Cause == "audit_eof" || c.Cause == "malformed_audit") && c.Connect != "audit_only":
			c.Connect = "audit_only"
		}
		c.Load = "idle"
	}
	return c
}

func execC08(c c08Case) Outcome {
	o := daemonOpts{}
	switch c.Cause {
	case "sshd_not_fifo:regular":
		o.SshdPath = "regular"
	case "sshd_not_fifo:missing":
		o.SshdPath = "missing"
	case "sshd_not_fifo:dir":
		o.SshdPath = "dir"
	case "audit_not_fifo:regular":
		o.AudPath = "regular"
	case "audit_not_fifo:missing":
		o.AudPath = "missing"
	case "audit_not_fifo:dir":
		o.AudPath = "dir"
	case "write_error":
		o.Output = "devfull"
	case "write_error_after_start", "write_error_at_login_record":
		o.Output = "fifo"
	}
	switch c.Flags {
	case "audit-metrics":
		o.Extra = []string{"-audit-metrics", "-audit-seconds-interval", "1s"}
	case "healthz":
		o.Extra = []string{"-healthz"}
	case "metrics":
		o.Extra = []string{"-metrics"}
	case "log-debug":
		o.Extra = []string{"-log-level", "debug"}
	}
	if c.Flags == "healthz" || c.Flags == "metrics" {
		// the HTTP server binds :2112 — one daemon at a time on this host
		unlock := lockPort2112()
		if unlock == nil {
			return Outcome{Skip: "port_2112_busy"}
		}
		defer unlock()
	}
	if c.Connect != "" {
		return execC08Partial(c, o)
	}
	d := startDaemon(o)
	defer d.cleanup()
	labels := []string{"cause:" + c.Cause, "load:" + c.Load, "flags:" + c.Flags}
	// events output as a FIFO read by the harness: closing the read end later
	// makes every further event write fail (EPIPE)
	var outR *os.File
	var outN int64
	if o.Output == "fifo" {
		f, e := os.OpenFile(d.outPath, os.O_RDONLY, 0)
		if e != nil {
			panic(&infraError{e.Error()})
		}
		outR = f
		go func() {
			buf := make([]byte, 65536)
			for {
				n, err := f.Read(buf)
				atomic.AddInt64(&outN, int64(bytes.Count(buf[:n], []byte{'\n'})))
				if err != nil {
					return
				}
			}
		}()
		defer outR.Close()
	}
	misconfig := isMisconfig(c.Cause)

	var sw, aw *os.File
	var sat *satWriter // non-nil under saturated load: the only writer of the audit pipe
	var err error
	stop := make(chan struct{})
	var wg sync.WaitGroup
	defer func() {
		close(stop)
		if sw != nil {
			sw.Close()
		}
		if aw != nil {
			aw.Close()
		}
		wg.Wait()
	}()

	t0 := time.Now()
	if misconfig {
		// the daemon must give up by itself; the healthy pipe (if any) may get a
		// writer, which must not keep the daemon alive
		if o.SshdPath == "" {
			go func() {
				if f, e := d.openWriter(d.sshdPipe); e == nil {
					defer f.Close()
					<-stop
				}
			}()
		}
		if o.AudPath == "" {
			go func() {
				if f, e := d.openWriter(d.audPipe); e == nil {
					if c.Load == "saturated" {
						var own sync.WaitGroup
						own.Add(1)
						saturate(f, stop, &own)
					}
					<-stop
					f.Close()
				}
			}()
		}
	} else {
		if sw, err = d.openWriter(d.sshdPipe); err != nil {
			if strings.Contains(d.stderrText(), "address already in use") {
				return Outcome{Skip: "port_2112_taken_by_another_process"}
			}
			panic(&infraError{err.Error() + "; stderr: " + tailStr(d.stderrText(), 800)})
		}
		if aw, err = d.openWriter(d.audPipe); err != nil {
			if strings.Contains(d.stderrText(), "address already in use") {
				return Outcome{Skip: "port_2112_taken_by_another_process"}
			}
			panic(&infraError{err.Error() + "; stderr: " + tailStr(d.stderrText(), 800)})
		}
		// traffic prefix: complete, correlated sessions
		if c.Cause != "write_error" {
			for i := 0; i < c.Prefix; i++ {
				fmt.Fprintf(sw, "%d Accepted password for u%d from 10.0.0.%d port 22 ssh2\n", 3000+i, i, i)
				for _, o := range []hop{{K: "open", S: 100 + i, P: 1000 + i}, {K: "ev", S: 100 + i, T: "USER_START"}, {K: "disp", S: 100 + i}} {
					for _, l := range audEventForOp(10*i+len(o.K), o).Lines {
						fmt.Fprintln(aw, l)
					}
				}
			}
		}
		if c.Load == "saturated" {
			wg.Add(1)
			sat = &satWriter{inj: make(chan []byte), done: make(chan struct{})}
			go saturateInj(aw, stop, &wg, sat.inj, sat.done)
			time.Sleep(300 * time.Millisecond) // let the internal line buffer fill
		}
		time.Sleep(time.Duration(c.DelayMs) * time.Millisecond)
		if code, ok := d.waitExit(0); ok {
			return fail("daemon exited (status %d) before any fault was injected; stderr: %s", code, tailStr(d.stderrText(), 800))
		}
		t0 = time.Now()
		switch c.Cause {
		case "sshd_eof":
			sw.Close()
			sw = nil
		case "audit_eof":
			if c.Load == "saturated" {
				// the saturating writer owns the descriptor: closing it ends the stream
				aw.Close()
			} else {
				aw.Close()
			}
			aw = nil
		case "malformed_audit":
			if c.Load == "saturated" {
				// a separate descriptor: writes on one *os.File are serialized by
				// its write lock, which the saturating writer holds almost always.
				// write(2) of < PIPE_BUF bytes is atomic, so the line lands whole
				// (possibly inside one of the saturating writer's lines: malformed
				// either way).
				w2, e := d.openWriter(d.audPipe)
				if e != nil {
					return fail("second audit writer: %v", e)
				}
				defer w2.Close()
				_, _ = w2.Write([]byte("this is not an audit record\n"))
			} else {
				fmt.Fprintln(aw, "this is not an audit record")
			}
		case "malformed_audit_then_login", "audit_eof_then_login":
			// the audit side dies while accepted logins keep arriving: a hand-off to the
			// (dead) correlator that is in flight at that moment must not keep the daemon alive
			loginsDone := make(chan struct{})
			go func() {
				defer close(loginsDone)
				for i := 0; i < 200000; i++ {
					select {
					case <-stop:
						return
					default:
					}
					if _, err := fmt.Fprintf(sw, "%d Accepted password for flood%d from 1.2.3.4 port 22 ssh2\n", 8000+i, i); err != nil {
						return
					}
				}
			}()
			time.Sleep(30 * time.Millisecond)
			if c.Cause == "audit_eof_then_login" {
				aw.Close()
				aw = nil
			} else if c.Load == "saturated" {
				w2, e := d.openWriter(d.audPipe)
				if e != nil {
					panic(&infraError{e.Error()})
				}
				defer w2.Close()
				_, _ = w2.Write([]byte("this is not an audit record\n"))
			} else {
				fmt.Fprintln(aw, "this is not an audit record")
			}
			// keep logging in for a while: the first login after the correlator has
			// stopped finds nobody to hand over to (a correct daemon is gone by then
			// and the writes simply fail)
			for i := 0; i < 30; i++ {
				if _, err := fmt.Fprintf(sw, "%d Accepted password for late%d from 1.2.3.4 port 22 ssh2\n", 7000+i, i); err != nil {
					break
				}
				if _, ok := d.waitExit(40 * time.Millisecond); ok {
					break
				}
			}
		case "malformed_audit_huge":
			// an unparsable line longer than any internal buffer
			huge := "type=EXECVE msg=audit(BROKEN): argc=1 a0=" + strings.Repeat("A", 70*1024+c.Prefix) + "\n"
			if c.Load == "saturated" {
				w2, e := d.openWriter(d.audPipe)
				if e != nil {
					panic(&infraError{e.Error()})
				}
				defer w2.Close()
				go func() { _, _ = w2.Write([]byte(huge)) }()
			} else {
				go func() { _, _ = aw.Write([]byte(huge)) }()
			}
		case "write_error_after_start":
			// a correlated session is established and its first events are written;
			// then the output breaks while kernel events of the session are in flight
			var am io.Writer = aw
			if sat != nil {
				// whole lines handed to the saturating writer (see satWriter)
				am = sat
			}
			fmt.Fprintf(sw, "6001 Accepted password for w from 1.2.3.4 port 22 ssh2\n")
			fmt.Fprintln(am, audEventForOp(800, hop{K: "open", S: 77, P: 4001}).Lines[0])
			if !waitUntil(20*time.Second, func() bool { return atomic.LoadInt64(&outN) >= int64(4*c.Prefix+2) }) {
				panic(&infraError{"session not correlated: " + tailStr(d.stderrText(), 400)})
			}
			outR.Close()
			for i := 0; i < 4+c.Prefix; i++ {
				ae := audEventForOp(901+i, hop{K: "ev", S: 77, T: "SYSCALL", P: 4001})
				fmt.Fprintln(am, ae.Lines[0]) // SYSCALL record only: the event stays incomplete
			}
			// a complete event with a LOWER sequence number (out-of-order arrival): it is
			// delivered at once, its write fails, and the incomplete events above are
			// still in flight when the audit processor stops
			for _, l := range audEventForOp(850, hop{K: "ev", S: 77, T: "USER_START", P: 4001}).Lines {
				fmt.Fprintln(am, l)
			}
		case "write_error_at_login_record":
			// the sshd line of a login is written; the output breaks; then the kernel's
			// LOGIN record of that login arrives and finds its login waiting: the very
			// first UserAction of the session cannot be written, and nothing follows
			var am io.Writer = aw
			if sat != nil {
				am = sat
			}
			fmt.Fprintf(sw, "6001 Accepted password for w from 1.2.3.4 port 22 ssh2\n")
			if !waitUntil(20*time.Second, func() bool { return atomic.LoadInt64(&outN) >= int64(4*c.Prefix+1) }) {
				panic(&infraError{"login event not written: " + tailStr(d.stderrText(), 400)})
			}
			outR.Close()
			fmt.Fprintln(am, audEventForOp(800, hop{K: "open", S: 77, P: 4001}).Lines[0])
		case "write_error":
			fmt.Fprintf(sw, "4242 Accepted password for u from 1.2.3.4 port 22 ssh2\n")
		case "sigterm":
			_ = d.cmd.Process.Signal(syscall.SIGTERM)
		case "sigint":
			_ = d.cmd.Process.Signal(syscall.SIGINT)
		}
	}
	code, ok := d.waitExit(c08Bound)
	if !ok {
		dump := d.dumpAndKill()
		return fail("cause %s under %s load: the daemon was still running %v after the injection; blocked goroutines:\n%s", c.Cause, c.Load, c08Bound, dump)
	}
	lat := time.Since(t0)
	if c.Cause != "sigterm" && c.Cause != "sigint" && code == 0 {
		return fail("cause %s under %s load: the daemon exited with status 0 (a failure must yield a non-zero status); stderr: %s", c.Cause, c.Load, tailStr(d.stderrText(), 600))
	}
	if lat > time.Second {
		labels = append(labels, "exit_latency>1s")
	}
	return Outcome{NT: c.Load == "saturated" || misconfig, Labels: labels}
}

// execC08Partial: the fault arrives while an input pipe has no producer
// connected yet (its worker is still waiting in open(2)).
func execC08Partial(c c08Case, o daemonOpts) Outcome {
	d := startDaemon(o)
	defer d.cleanup()
	labels := []string{"cause:" + c.Cause, "connect:" + c.Connect, "flags:" + c.Flags}
	var sw, aw *os.File
	var err error
	if c.Connect == "sshd_only" {
		if sw, err = d.openWriter(d.sshdPipe); err != nil {
			panic(&infraError{err.Error()})
		}
		defer sw.Close()
	}
	if c.Connect == "audit_only" {
		if aw, err = d.openWriter(d.audPipe); err != nil {
			panic(&infraError{err.Error()})
		}
		defer aw.Close()
	}
	// make sure the daemon is past its start-up (workers waiting in open)
	time.Sleep(time.Duration(150+c.DelayMs) * time.Millisecond)
	if code, ok := d.waitExit(0); ok {
		return fail("daemon exited (status %d) before any fault was injected; stderr: %s", code, tailStr(d.stderrText(), 800))
	}
	failure := true
	switch {
	case c.Cause == "sigterm":
		failure = false
		_ = d.cmd.Process.Signal(syscall.SIGTERM)
	case c.Cause == "sigint":
		failure = false
		_ = d.cmd.Process.Signal(syscall.SIGINT)
	case c.Cause == "sshd_eof" && sw != nil:
		sw.Close()
	case c.Cause == "audit_eof" && aw != nil:
		aw.Close()
	case c.Cause == "malformed_audit" && aw != nil:
		fmt.Fprintln(aw, "this is not an audit record")
	default:
		return Outcome{Skip: "cause_needs_the_unconnected_pipe"}
	}
	code, ok := d.waitExit(c08Bound)
	if !ok {
		dump := d.dumpAndKill()
		return fail("cause %s while %s (flags %q): the daemon was still running %v after the injection; blocked goroutines:\n%s", c.Cause, c.Connect, c.Flags, c08Bound, dump)
	}
	if failure && code == 0 {
		return fail("cause %s while %s: the daemon exited with status 0", c.Cause, c.Connect)
	}
	return Outcome{NT: true, Labels: labels}
}

// lockPort2112 serialises daemons that bind :2112 across the check's processes.
func lockPort2112() func() {
	f, err := os.OpenFile("/tmp/verif-port2112.lock", os.O_CREATE|os.O_RDWR, 0o600)
	if err != nil {
		return nil
	}
	// bounded wait: other check processes on this host may be using the port
	deadline := time.Now().Add(10 * time.Second)
	for {
		if err := syscall.Flock(int(f.Fd()), syscall.LOCK_EX|syscall.LOCK_NB); err == nil {
			break
		}
		if time.Now().After(deadline) {
			f.Close()
			return nil
		}
		time.Sleep(50 * time.Millisecond)
	}
	// is the port free at all (something else on the host may own it)?
	if l, err := net.Listen("tcp", ":2112"); err != nil {
		_ = syscall.Flock(int(f.Fd()), syscall.LOCK_UN)
		f.Close()
		return nil
	} else {
		l.Close()
	}
	return func() {
		_ = syscall.Flock(int(f.Fd()), syscall.LOCK_UN)
		f.Close()
	}
}

func tailStr(s string, n int) string {
	if len(s) > n {
		return s[len(s)-n:]
	}
	return s
}

func TestC08_Enum(t *testing.T) {
	si, sn := shard()
	n := 0
	RunEnum(t, "c08.enum", func(y func(c08Case) bool) {
		for _, load := range []string{"idle", "saturated"} {
			for _, cause := range c08Causes {
				if load == "saturated" && thorough() == false && isMisconfig(cause) && cause != "sshd_not_fifo:regular" {
					continue // quick: one saturated mis-configuration
				}
				n++
				if n%sn != si {
					continue
				}
				if !y(c08Case{Cause: cause, Load: load, DelayMs: 50, Prefix: 2}) {
					return
				}
			}
		}
		// the fault arrives while an input pipe has no producer yet
		for _, pc := range []c08Case{
			{Cause: "sigterm", Connect: "none"}, {Cause: "sigint", Connect: "sshd_only"}, {Cause: "sigterm", Connect: "audit_only"},
			{Cause: "sshd_eof", Connect: "sshd_only"}, {Cause: "audit_eof", Connect: "audit_only"}, {Cause: "malformed_audit", Connect: "audit_only"},
		} {
			n++
			if n%sn != si {
				continue
			}
			pc.Load = "idle"
			if !y(pc) {
				return
			}
		}
		// optional daemon features enabled (their goroutines must stop too)
		for _, fc := range []c08Case{
			{Cause: "sshd_eof", Flags: "audit-metrics"}, {Cause: "malformed_audit", Flags: "audit-metrics"}, {Cause: "sigterm", Flags: "audit-metrics"},
			{Cause: "audit_eof", Flags: "healthz"}, {Cause: "sigint", Flags: "healthz"}, {Cause: "sshd_eof", Flags: "metrics"},
			{Cause: "sigterm", Flags: "log-debug"}, {Cause: "malformed_audit", Flags: "log-debug"}, {Cause: "sshd_eof", Flags: "log-debug"},
		} {
			n++
			if n%sn != si {
				continue
			}
			fc.Load, fc.DelayMs, fc.Prefix = "idle", 50, 1
			if !y(fc) {
				return
			}
		}
	}, retryFlaky("c08.enum", execC08))
	addNote("c08.enum", "every failure cause x {idle, saturated} on the built daemon")
}

func TestC08_Random(t *testing.T) {
	RunProp(t, "c08.random", genC08, retryFlaky("c08.random", execC08))
}

// ---------------------------------------------------------------------------
// C05 at the daemon level: "unless its context is cancelled" as the assembled
// daemon wires it. The correlator stops (its input ends or is unparsable, so the
// worker group's context is cancelled) while accepted logins keep arriving; the
// hand-off that is blocked on the dead correlator must be abandoned, which shows
// as the daemon exiting. A control run without logins in flight separates this
// from a daemon that does not stop at all (C08's business, excluded here).

func genC05Daemon(rt *rapid.T) c08Case {
	return c08Case{Cause: pick(rt, "cause", []string{"malformed_audit_then_login", "audit_eof_then_login"}),
		Load: pick(rt, "load", []string{"idle", "idle", "saturated"}), DelayMs: rapid.IntRange(0, 200).Draw(rt, "delay"),
		Prefix: rapid.IntRange(0, 3).Draw(rt, "prefix")}
}

func execC05Daemon(c c08Case) Outcome {
	o := execC08(c)
	if o.Err == nil {
		return o
	}
	ctl := c
	if c.Cause == "audit_eof_then_login" {
		ctl.Cause = "audit_eof"
	} else {
		ctl.Cause = "malformed_audit"
	}
	if oc := execC08(ctl); oc.Err != nil {
		return Outcome{Skip: "daemon_does_not_stop_even_without_a_login_in_flight"}
	}
	return fail("accepted logins arriving while the correlator stops (hand-off blocked, worker context cancelled): %v", o.Err)
}

func TestC05_Daemon(t *testing.T) {
	RunProp(t, "c05.daemon", genC05Daemon, retryFlaky("c05.daemon", execC05Daemon))
}
