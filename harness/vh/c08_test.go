package vh

import (
	"fmt"
	"os"
	"sync"
	"syscall"
	"testing"
	"time"

	"pgregory.net/rapid"
)

// C08 — fail-stop: a worker failure or termination signal ends the whole daemon.

type c08Case struct {
	Cause   string `json:"cause"` // sshd_eof | audit_eof | malformed_audit | write_error | sshd_not_fifo:<k> | audit_not_fifo:<k> | sigterm | sigint
	Load    string `json:"load"`  // idle | saturated
	DelayMs int    `json:"delay_ms"`
	Prefix  int    `json:"prefix"` // well-formed sessions delivered before the injection
}

var c08Causes = []string{"sshd_eof", "audit_eof", "malformed_audit", "write_error",
	"sshd_not_fifo:regular", "sshd_not_fifo:missing", "sshd_not_fifo:dir",
	"audit_not_fifo:regular", "audit_not_fifo:missing", "audit_not_fifo:dir", "sigterm", "sigint"}

const c08Bound = 15 * time.Second

func isMisconfig(cause string) bool { return len(cause) > 9 && (cause[:9] == "sshd_not_" || cause[:10] == "audit_not_") }

func genC08(rt *rapid.T) c08Case {
	c := c08Case{Cause: pick(rt, "cause", c08Causes), Load: pick(rt, "load", []string{"idle", "saturated"}),
		DelayMs: rapid.IntRange(0, 300).Draw(rt, "delay"), Prefix: rapid.IntRange(0, 5).Draw(rt, "prefix")}
	return c
}

func execC08(c c08Case) Outcome {
	o := daemonOpts{}
	switch c.Cause {
	case "sshd_not_fifo:regular":
		o.SshdPath = "regular"
	case "sshd_not_fifo:missing":
		o.SshdPath = "missing"
	case "sshd_not_fifo:dir":
		o.SshdPath = "dir"
	case "audit_not_fifo:regular":
		o.AudPath = "regular"
	case "audit_not_fifo:missing":
		o.AudPath = "missing"
	case "audit_not_fifo:dir":
		o.AudPath = "dir"
	case "write_error":
		o.Output = "devfull"
	}
	d := startDaemon(o)
	defer d.cleanup()
	labels := []string{"cause:" + c.Cause, "load:" + c.Load}
	misconfig := isMisconfig(c.Cause)

	var sw, aw *os.File
	var err error
	stop := make(chan struct{})
	var wg sync.WaitGroup
	defer func() {
		close(stop)
		if sw != nil {
			sw.Close()
		}
		if aw != nil {
			aw.Close()
		}
		wg.Wait()
	}()

	t0 := time.Now()
	if misconfig {
		// the daemon must give up by itself; the healthy pipe (if any) may get a
		// writer, which must not keep the daemon alive
		if o.SshdPath == "" {
			go func() {
				if f, e := d.openWriter(d.sshdPipe); e == nil {
					defer f.Close()
					<-stop
				}
			}()
		}
		if o.AudPath == "" {
			go func() {
				if f, e := d.openWriter(d.audPipe); e == nil {
					if c.Load == "saturated" {
						var own sync.WaitGroup
						own.Add(1)
						saturate(f, stop, &own)
					}
					<-stop
					f.Close()
				}
			}()
		}
	} else {
		if sw, err = d.openWriter(d.sshdPipe); err != nil {
			return fail("%v; stderr: %s", err, tailStr(d.stderrText(), 800))
		}
		if aw, err = d.openWriter(d.audPipe); err != nil {
			return fail("%v; stderr: %s", err, tailStr(d.stderrText(), 800))
		}
		// traffic prefix: complete, correlated sessions
		if c.Cause != "write_error" {
			for i := 0; i < c.Prefix; i++ {
				fmt.Fprintf(sw, "%d Accepted password for u%d from 10.0.0.%d port 22 ssh2\n", 3000+i, i, i)
				for _, o := range []hop{{K: "open", S: 100 + i, P: 1000 + i}, {K: "ev", S: 100 + i, T: "USER_START"}, {K: "disp", S: 100 + i}} {
					for _, l := range audEventForOp(10*i+len(o.K), o).Lines {
						fmt.Fprintln(aw, l)
					}
				}
			}
		}
		if c.Load == "saturated" {
			wg.Add(1)
			go saturate(aw, stop, &wg)
			time.Sleep(300 * time.Millisecond) // let the internal line buffer fill
		}
		time.Sleep(time.Duration(c.DelayMs) * time.Millisecond)
		if code, ok := d.waitExit(0); ok {
			return fail("daemon exited (status %d) before any fault was injected; stderr: %s", code, tailStr(d.stderrText(), 800))
		}
		t0 = time.Now()
		switch c.Cause {
		case "sshd_eof":
			sw.Close()
			sw = nil
		case "audit_eof":
			if c.Load == "saturated" {
				// the saturating writer owns the descriptor: closing it ends the stream
				aw.Close()
			} else {
				aw.Close()
			}
			aw = nil
		case "malformed_audit":
			if c.Load == "saturated" {
				// a separate descriptor: writes on one *os.File are serialized by
				// its write lock, which the saturating writer holds almost always.
				// write(2) of < PIPE_BUF bytes is atomic, so the line lands whole
				// (possibly inside one of the saturating writer's lines: malformed
				// either way).
				w2, e := d.openWriter(d.audPipe)
				if e != nil {
					return fail("second audit writer: %v", e)
				}
				defer w2.Close()
				_, _ = w2.Write([]byte("this is not an audit record\n"))
			} else {
				fmt.Fprintln(aw, "this is not an audit record")
			}
		case "write_error":
			fmt.Fprintf(sw, "4242 Accepted password for u from 1.2.3.4 port 22 ssh2\n")
		case "sigterm":
			_ = d.cmd.Process.Signal(syscall.SIGTERM)
		case "sigint":
			_ = d.cmd.Process.Signal(syscall.SIGINT)
		}
	}
	code, ok := d.waitExit(c08Bound)
	if !ok {
		dump := d.dumpAndKill()
		return fail("cause %s under %s load: the daemon was still running %v after the injection; blocked goroutines:\n%s", c.Cause, c.Load, c08Bound, dump)
	}
	lat := time.Since(t0)
	if c.Cause != "sigterm" && c.Cause != "sigint" && code == 0 {
		return fail("cause %s under %s load: the daemon exited with status 0 (a failure must yield a non-zero status); stderr: %s", c.Cause, c.Load, tailStr(d.stderrText(), 600))
	}
	if lat > time.Second {
		labels = append(labels, "exit_latency>1s")
	}
	return Outcome{NT: c.Load == "saturated" || misconfig, Labels: labels}
}

func tailStr(s string, n int) string {
	if len(s) > n {
		return s[len(s)-n:]
	}
	return s
}

func TestC08_Enum(t *testing.T) {
	si, sn := shard()
	n := 0
	RunEnum(t, "c08.enum", func(y func(c08Case) bool) {
		for _, load := range []string{"idle", "saturated"} {
			for _, cause := range c08Causes {
				if load == "saturated" && thorough() == false && isMisconfig(cause) && cause != "sshd_not_fifo:regular" {
					continue // quick: one saturated mis-configuration
				}
				n++
				if n%sn != si {
					continue
				}
				if !y(c08Case{Cause: cause, Load: load, DelayMs: 50, Prefix: 2}) {
					return
				}
			}
		}
	}, retryFlaky("c08.enum", execC08))
	addNote("c08.enum", "every failure cause x {idle, saturated} on the built daemon")
}

func TestC08_Random(t *testing.T) {
	RunProp(t, "c08.random", genC08, retryFlaky("c08.random", execC08))
}
