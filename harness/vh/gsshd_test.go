package vh

import (
	"fmt"
	"strconv"
	"strings"

	"pgregory.net/rapid"
)

// G-SSHD — grammar of OpenSSH server messages, written from the auth.c format
// strings (quoted in openssh_regex.go), not from the regular expressions. Each
// constructor returns the text and the expected event as flat leaf key→value.

type sshdMsg struct {
	Form     string            `json:"form"`
	PID      string            `json:"pid"`
	Msg      string            `json:"msg"`
	Want     map[string]string `json:"want"`
	Accepted bool              `json:"accepted"`
	Method   string            `json:"method"` // password | pubkey | "" (failures)
	KeyID    string            `json:"key_id"` // certificate key ID
	HasCert  bool              `json:"has_cert"`
	Feat     []string          `json:"feat"`   // structural features (non-triviality)
}

const (
	vhNode      = "verif-node"
	vhMachineID = "0123456789abcdef0123456789abcdef"
)

var (
	asciiNameFirst = []rune("abcdefghijklmnopqrstuvwxyzABCDEFGHIJKLMNOPQRSTUVWXYZ0123456789_")
	asciiNameRest  = []rune("abcdefghijklmnopqrstuvwxyzABCDEFGHIJKLMNOPQRSTUVWXYZ0123456789_.@-")
	uniRunes       = []rune("äéñüøßçλжя日本語名한ñ𝒜😀")
	keyTypes       = []string{"RSA", "DSA", "ECDSA", "ED25519", "XMSS", "ECDSA-SK", "ED25519-SK"}
	certKeyTypes   = []string{"RSA-CERT", "DSA-CERT", "ECDSA-CERT", "ED25519-CERT", "XMSS-CERT", "ECDSA-SK-CERT", "ED25519-SK-CERT"}
	b64Runes       = []rune("ABCDEFGHIJKLMNOPQRSTUVWXYZabcdefghijklmnopqrstuvwxyz0123456789+/")
	hexRunes       = []rune("0123456789abcdef")
	pathRunes      = []rune("abcdefghijklmnopqrstuvwxyzABCDEFGHIJKLMNOPQRSTUVWXYZ0123456789_.-")
)

func pick[T any](rt *rapid.T, label string, xs []T) T { return rapid.SampledFrom(xs).Draw(rt, label) }

func genStringOf(rt *rapid.T, label string, alphabet []rune, min, max int) string {
	rs := rapid.SliceOfN(rapid.SampledFrom(alphabet), min, max).Draw(rt, label)
	return string(rs)
}

func genAccount(rt *rapid.T, label string, feat *[]string) string {
	kind := rapid.IntRange(0, 9).Draw(rt, label+".kind")
	switch {
	case kind <= 1:
		// common names, and names that are (or end in) tokens of the message grammar
		return pick(rt, label+".common", []string{"root", "core", "ubuntu", "auditomalditotesting", "a", "svc_deploy", "j.doe", "machine$",
			"ID", "CA", "serial", "from", "port", "ssh2", "DAVID", "svc-ID", "user", "for", "invalid", "publickey", "password", "x.CA", "not", "allowed"})
	case kind <= 7:
		s := string(pick(rt, label+".first", asciiNameFirst)) + genStringOf(rt, label+".rest", asciiNameRest, 0, 31)
		if rapid.IntRange(0, 5).Draw(rt, label+".dollar") == 0 {
			s += "$"
		}
		return s
	default:
		*feat = append(*feat, "non_ascii_name")
		n := rapid.IntRange(1, 6).Draw(rt, label+".n")
		s := ""
		for i := 0; i < n; i++ {
			if rapid.Bool().Draw(rt, label+".u") {
				s += string(pick(rt, label+".ur", uniRunes))
			} else {
				s += string(pick(rt, label+".ar", asciiNameFirst))
			}
		}
		if !strings.ContainsAny(s, string(uniRunes)) {
			s += string(pick(rt, label+".ur2", uniRunes))
		}
		return s
	}
}

func genIPv4(rt *rapid.T, label string) string {
	if rapid.IntRange(0, 4).Draw(rt, label+".c") == 0 {
		return pick(rt, label+".common", []string{"127.0.0.1", "10.0.0.1", "192.168.1.254", "0.0.0.0", "255.255.255.255"})
	}
	o := rapid.SliceOfN(rapid.IntRange(0, 255), 4, 4).Draw(rt, label)
	return fmt.Sprintf("%d.%d.%d.%d", o[0], o[1], o[2], o[3])
}

func genIPv6(rt *rapid.T, label string, feat *[]string) string {
	*feat = append(*feat, "ipv6")
	var s string
	switch rapid.IntRange(0, 5).Draw(rt, label+".k") {
	case 0:
		s = pick(rt, label+".c", []string{"::1", "::", "fe80::1", "2001:db8::ff00:42:8329", "::ffff:192.0.2.128",
			// valid but not in canonical form
			"2001:DB8::1", "0:0:0:0:0:0:0:1", "fe80::0001", "::ffff:0a00:0001", "2001:0db8:0000:0000:0000:ff00:0042:8329"})
	case 1, 2: // full form
		g := rapid.SliceOfN(rapid.IntRange(0, 0xffff), 8, 8).Draw(rt, label+".g")
		parts := make([]string, 8)
		for i := range g {
			parts[i] = strconv.FormatInt(int64(g[i]), 16)
		}
		s = strings.Join(parts, ":")
	default: // compressed
		nl := rapid.IntRange(0, 6).Draw(rt, label+".nl")
		nr := rapid.IntRange(0, 6-nl).Draw(rt, label+".nr")
		l := rapid.SliceOfN(rapid.IntRange(1, 0xffff), nl, nl).Draw(rt, label+".l")
		r := rapid.SliceOfN(rapid.IntRange(1, 0xffff), nr, nr).Draw(rt, label+".r")
		ls, rs := make([]string, nl), make([]string, nr)
		for i := range l {
			ls[i] = strconv.FormatInt(int64(l[i]), 16)
		}
		for i := range r {
			rs[i] = strconv.FormatInt(int64(r[i]), 16)
		}
		s = strings.Join(ls, ":") + "::" + strings.Join(rs, ":")
	}
	if rapid.IntRange(0, 2).Draw(rt, label+".z") == 0 {
		*feat = append(*feat, "ipv6_zone")
		s += "%" + pick(rt, label+".zone", []string{"eth0", "ens3", "2", "wlan0", "br-1a2b", "enp0s31f6"})
	}
	return s
}

func genAddr(rt *rapid.T, label string, feat *[]string) string {
	if rapid.IntRange(0, 2).Draw(rt, label+".v") == 0 {
		return genIPv6(rt, label, feat)
	}
	return genIPv4(rt, label)
}

func genHostname(rt *rapid.T, label string) string {
	n := rapid.IntRange(1, 4).Draw(rt, label+".n")
	parts := make([]string, n)
	for i := range parts {
		parts[i] = genStringOf(rt, label+".l", []rune("abcdefghijklmnopqrstuvwxyz0123456789-"), 1, 12)
		parts[i] = strings.Trim(parts[i], "-")
		if parts[i] == "" {
			parts[i] = "h"
		}
	}
	return strings.Join(parts, ".")
}

// genHostOrAddr: what sshd prints for "from %.100s" in the User-forms (resolved
// host name with UseDNS, else the numeric address).
func genHostOrAddr(rt *rapid.T, label string, feat *[]string) string {
	if rapid.IntRange(0, 2).Draw(rt, label+".h") == 0 {
		*feat = append(*feat, "hostname_source")
		return genHostname(rt, label)
	}
	return genAddr(rt, label, feat)
}

func genPort(rt *rapid.T, label string) string {
	switch rapid.IntRange(0, 5).Draw(rt, label+".k") {
	case 0:
		return pick(rt, label+".c", []string{"0", "1", "22", "65535", "65534", "1024", "50482"})
	default:
		return strconv.Itoa(rapid.IntRange(0, 65535).Draw(rt, label))
	}
}

// genFingerprint returns (hashName, value) as sshd prints "HASH:value".
func genFingerprint(rt *rapid.T, label string, feat *[]string) (string, string) {
	switch rapid.IntRange(0, 9).Draw(rt, label+".k") {
	case 0, 1:
		*feat = append(*feat, "md5_fingerprint")
		parts := make([]string, 16)
		for i := range parts {
			parts[i] = genStringOf(rt, label+".hx", hexRunes, 2, 2)
		}
		return "MD5", strings.Join(parts, ":")
	case 2:
		return "SHA1", genStringOf(rt, label+".b", b64Runes, 27, 27)
	case 3:
		return "SHA512", genStringOf(rt, label+".b", b64Runes, 86, 86)
	case 4:
		return "SHA384", genStringOf(rt, label+".b", b64Runes, 64, 64)
	default:
		return "SHA256", genStringOf(rt, label+".b", b64Runes, 43, 43)
	}
}

func genKeyID(rt *rapid.T, label string, feat *[]string) string {
	kind := rapid.IntRange(0, 9).Draw(rt, label+".k")
	switch {
	case kind <= 2:
		return pick(rt, label+".c", []string{"foo@bar.com", "foo", "user-1", "a", "0", ""}) // ssh-keygen -I '' gives an empty key ID
	case kind <= 5:
		return genStringOf(rt, label+".s", []rune("abcdefghijklmnopqrstuvwxyzABCXYZ0123456789@._-+=/"), 1, 40)
	default:
		toks := []string{"serial", "(serial 7)", "ID", "CA", "(", ")", "@", "john doe", "x", "42", "(serial", "serial)", "ID x", "CA ED25519", "ops team", "a.b", "é",
			"ticket#123", "pr#012", "dev#007", "a%0ab", "\\n", "c#", "#1"}
		n := rapid.IntRange(2, 6).Draw(rt, label+".n")
		parts := make([]string, n)
		for i := range parts {
			parts[i] = pick(rt, label+".t", toks)
		}
		s := strings.Join(parts, " ")
		if strings.Contains(s, " ") {
			*feat = append(*feat, "keyid_with_space")
		}
		if strings.ContainsAny(s, "()") {
			*feat = append(*feat, "keyid_with_paren")
		}
		if strings.Contains(s, "serial") {
			*feat = append(*feat, "keyid_with_word_serial")
		}
		return s
	}
}

func genSerial(rt *rapid.T, label string, feat *[]string) string {
	switch rapid.IntRange(0, 5).Draw(rt, label+".k") {
	case 0:
		return pick(rt, label+".c", []string{"0", "1", "4294967295", "4294967296", "18446744073709551615", "9223372036854775808"})
	case 1, 2:
		v := rapid.Uint64().Draw(rt, label+".u")
		if v > 1<<32 {
			*feat = append(*feat, "serial_gt_2^32")
		}
		return strconv.FormatUint(v, 10)
	default:
		return strconv.Itoa(rapid.IntRange(0, 100000).Draw(rt, label))
	}
}

func genPath(rt *rapid.T, label string, feat *[]string) string {
	n := rapid.IntRange(1, 5).Draw(rt, label+".n")
	s := ""
	space := false
	for i := 0; i < n; i++ {
		seg := genStringOf(rt, label+".seg", pathRunes, 1, 10)
		if rapid.IntRange(0, 5).Draw(rt, label+".sp") == 0 {
			seg += " " + genStringOf(rt, label+".seg2", pathRunes, 1, 6)
			space = true
		}
		s += "/" + seg
	}
	if space {
		*feat = append(*feat, "path_with_space")
	}
	if rapid.IntRange(0, 7).Draw(rt, label+".trail") == 0 {
		// a file name may end in a blank; sshd prints it as it is
		s += " "
		*feat = append(*feat, "path_trailing_space")
	}
	return s
}

func genPIDToken(rt *rapid.T, label string) string {
	switch rapid.IntRange(0, 9).Draw(rt, label+".k") {
	case 0:
		return pick(rt, label+".c", []string{"1", "2", "4194304", "2147483647", "32768"})
	default:
		return strconv.Itoa(rapid.IntRange(1, 4194304).Draw(rt, label))
	}
}

func genReason(rt *rapid.T, label string) string {
	switch rapid.IntRange(0, 3).Draw(rt, label+".k") {
	case 0, 1:
		return pick(rt, label+".c", []string{"expired", "not yet valid", "name is not a listed principal", "not a user certificate",
			"certificate has no principals", "source address 10.0.0.1 not allowed"})
	default:
		return strings.TrimSpace(genStringOf(rt, label+".s", []rune("abcdefghijklmnopqrstuvwxyz ABC0123456789:,.-_()'\"é"), 1, 60)) + "x"
	}
}

var sshdForms = []string{
	"accepted_publickey", "accepted_publickey_padded", "accepted_cert", "accepted_password",
	"cert_invalid", "invalid_user",
	"user_not_in_allowusers", "user_shell_missing", "user_shell_not_exec", "user_in_denyusers",
	"user_not_in_any_group", "user_group_in_denygroups", "user_not_in_allowgroups",
	"root_login_refused", "bad_owner_or_modes",
	"nasty_ptr", "reverse_mapping_failed", "does_not_map_back",
	"max_auth_attempts", "revoked_key", "revoked_key_err", "failed_password",
}

func baseWant(pid string, accepted bool) map[string]string {
	w := map[string]string{
		"type": "UserLogin", "component": "sshd", "pid": pid,
		"host": vhNode, "machine-id": vhMachineID,
	}
	if accepted {
		w["outcome"] = "succeeded"
	} else {
		w["outcome"] = "failed"
	}
	return w
}

// genSshdMsgForm builds one well-formed message of the given form.
func genSshdMsgForm(rt *rapid.T, form string) sshdMsg {
	m := sshdMsg{Form: form}
	m.PID = genPIDToken(rt, "pid")
	feat := &m.Feat
	switch form {
	case "accepted_publickey", "accepted_publickey_padded", "accepted_cert":
		m.Accepted, m.Method = true, "pubkey"
		u, s, p := genAccount(rt, "user", feat), genAddr(rt, "src", feat), genPort(rt, "port")
		var kt string
		if form == "accepted_cert" {
			kt = pick(rt, "kt", certKeyTypes)
		} else {
			kt = pick(rt, "kt", append(append([]string{}, keyTypes...), certKeyTypes...))
		}
		hn, fp := genFingerprint(rt, "fp", feat)
		m.Msg = fmt.Sprintf("Accepted publickey for %s from %s port %s ssh2: %s %s:%s", u, s, p, kt, hn, fp)
		m.Want = baseWant(m.PID, true)
		m.Want["loggedAs"], m.Want["value"], m.Want["port"] = u, s, p
		m.Want["Alg"], m.Want["SSHKeySum"] = kt+" "+hn, fp
		switch form {
		case "accepted_publickey":
			m.Want["userID"] = "unknown"
		case "accepted_publickey_padded":
			// trailing text that is not a certificate description
			pad := pick(rt, "pad", []string{" ", " x", " trailing text", " ID", " ID foo", " (serial 1)", " CA RSA SHA256:abc", "  "})
			m.Msg += pad
			m.Want["userID"] = "unknown"
		case "accepted_cert":
			id, serial := genKeyID(rt, "keyid", feat), genSerial(rt, "serial", feat)
			cakt := pick(rt, "cakt", keyTypes)
			cahn, cafp := genFingerprint(rt, "cafp", feat)
			if rapid.IntRange(0, 5).Draw(rt, "selfsigned") == 0 {
				// a certificate signed by its own key: sshd prints the same fingerprint twice
				cahn, cafp = hn, fp
				*feat = append(*feat, "self_signed_certificate")
			}
			m.Msg += fmt.Sprintf(" ID %s (serial %s) CA %s %s:%s", id, serial, cakt, cahn, cafp)
			m.KeyID, m.HasCert = id, true
			m.Want["userID"], m.Want["Serial"] = id, serial
			m.Want["CA"] = fmt.Sprintf("CA %s %s:%s", cakt, cahn, cafp)
		}
	case "accepted_password":
		m.Accepted, m.Method = true, "password"
		u, s, p := genAccount(rt, "user", feat), genAddr(rt, "src", feat), genPort(rt, "port")
		m.Msg = fmt.Sprintf("Accepted password for %s from %s port %s ssh2", u, s, p)
		m.Want = baseWant(m.PID, true)
		m.Want["loggedAs"], m.Want["value"], m.Want["port"], m.Want["userID"] = u, s, p, "unknown"
	case "cert_invalid":
		r := genReason(rt, "reason")
		m.Msg = "Certificate invalid: " + r
		m.Want = baseWant(m.PID, false)
		m.Want["reason"] = r
	case "invalid_user":
		u, s, p := genAccount(rt, "user", feat), genAddr(rt, "src", feat), genPort(rt, "port")
		m.Msg = fmt.Sprintf("Invalid user %s from %s port %s", u, s, p)
		m.Want = baseWant(m.PID, false)
		m.Want["loggedAs"], m.Want["value"], m.Want["port"] = u, s, p
	case "user_not_in_allowusers", "user_in_denyusers", "user_not_in_any_group", "user_group_in_denygroups", "user_not_in_allowgroups":
		u, h := genAccount(rt, "user", feat), genHostOrAddr(rt, "host", feat)
		tail := map[string]string{
			"user_not_in_allowusers":   "not listed in AllowUsers",
			"user_in_denyusers":        "listed in DenyUsers",
			"user_not_in_any_group":    "not in any group",
			"user_group_in_denygroups": "a group is listed in DenyGroups",
			"user_not_in_allowgroups":  "none of user's groups are listed in AllowGroups",
		}[form]
		m.Msg = fmt.Sprintf("User %s from %s not allowed because %s", u, h, tail)
		m.Want = baseWant(m.PID, false)
		m.Want["loggedAs"], m.Want["value"] = u, h
	case "user_shell_missing", "user_shell_not_exec":
		u, sh := genAccount(rt, "user", feat), genPath(rt, "shell", feat)
		tail := "does not exist"
		if form == "user_shell_not_exec" {
			tail = "is not executable"
		}
		m.Msg = fmt.Sprintf("User %s not allowed because shell %s %s", u, sh, tail)
		m.Want = baseWant(m.PID, false)
		m.Want["loggedAs"], m.Want["shell"] = u, sh
	case "root_login_refused":
		s, p := genAddr(rt, "src", feat), genPort(rt, "port")
		m.Msg = fmt.Sprintf("ROOT LOGIN REFUSED FROM %s port %s", s, p)
		m.Want = baseWant(m.PID, false)
		m.Want["loggedAs"], m.Want["value"], m.Want["port"] = "root", s, p
	case "bad_owner_or_modes":
		u, f := genAccount(rt, "user", feat), genPath(rt, "file", feat)
		m.Msg = fmt.Sprintf("Authentication refused for %s: bad owner or modes for %s", u, f)
		m.Want = baseWant(m.PID, false)
		m.Want["loggedAs"], m.Want["filePath"] = u, f
	case "nasty_ptr":
		n, s := genHostname(rt, "dns"), genAddr(rt, "src", feat)
		m.Msg = fmt.Sprintf("Nasty PTR record \"%s\" is set up for %s, ignoring", n, s)
		m.Want = baseWant(m.PID, false)
		m.Want["dns"], m.Want["value"] = n, s
	case "reverse_mapping_failed":
		n, s := genHostname(rt, "dns"), genAddr(rt, "src", feat)
		m.Msg = fmt.Sprintf("reverse mapping checking getaddrinfo for %s [%s] failed.", n, s)
		m.Want = baseWant(m.PID, false)
		m.Want["dns"], m.Want["value"] = n, s
	case "does_not_map_back":
		n, s := genHostname(rt, "dns"), genAddr(rt, "src", feat)
		m.Msg = fmt.Sprintf("Address %s maps to %s, but this does not map back to the address.", s, n)
		m.Want = baseWant(m.PID, false)
		m.Want["dns"], m.Want["value"] = n, s
	case "max_auth_attempts":
		u, s, p := genAccount(rt, "user", feat), genAddr(rt, "src", feat), genPort(rt, "port")
		m.Msg = fmt.Sprintf("maximum authentication attempts exceeded for %s from %s port %s ssh2", u, s, p)
		m.Want = baseWant(m.PID, false)
		m.Want["loggedAs"], m.Want["value"], m.Want["port"] = u, s, p
	case "revoked_key", "revoked_key_err":
		kt := pick(rt, "kt", append(append([]string{}, keyTypes...), certKeyTypes...))
		hn, fp := genFingerprint(rt, "fp", feat)
		f := genPath(rt, "file", feat)
		if form == "revoked_key" {
			m.Msg = fmt.Sprintf("Authentication key %s %s:%s revoked by file %s", kt, hn, fp, f)
		} else {
			m.Msg = fmt.Sprintf("Error checking authentication key %s %s:%s in revoked keys file %s", kt, hn, fp, f)
		}
		m.Want = baseWant(m.PID, false)
		m.Want["keyType"], m.Want["fingerprint"], m.Want["filePath"] = kt, hn+":"+fp, f
	case "failed_password":
		u, s, p := genAccount(rt, "user", feat), genAddr(rt, "src", feat), genPort(rt, "port")
		m.Msg = fmt.Sprintf("Failed password for %s from %s port %s ssh2", u, s, p)
		m.Want = baseWant(m.PID, false)
		m.Want["loggedAs"], m.Want["value"], m.Want["port"] = u, s, p
	default:
		panic("unknown form " + form)
	}
	m.Feat = dedup(m.Feat)
	return m
}

func genSshdMsg(rt *rapid.T) sshdMsg {
	return genSshdMsgForm(rt, pick(rt, "form", sshdForms))
}

var acceptedForms = []string{"accepted_publickey", "accepted_publickey_padded", "accepted_cert", "accepted_password"}

// recognisedKeywords: an event may only be produced for lines that begin with
// one of these (C11, C19).
var recognisedKeywords = []string{
	"Accepted publickey", "Accepted password", "Certificate invalid", "Invalid user", "User ",
	"ROOT LOGIN REFUSED FROM", "Authentication refused for", "Nasty PTR record",
	"reverse mapping checking getaddrinfo for", "Address ", "maximum authentication attempts exceeded for",
	"Authentication key", "Error checking authentication key", "Failed password for",
}

func startsWithKeyword(s string) bool {
	for _, k := range recognisedKeywords {
		if strings.HasPrefix(s, k) {
			return true
		}
	}
	return false
}

// ---------------------------------------------------------------------------
// G-JUNK: arbitrary bytes and systematic mutations of valid messages.

type junkLine struct {
	PID  string `json:"pid"`
	Msg  []byte `json:"msg"` // raw bytes (may be invalid UTF-8)
	Kind string `json:"kind"`
}

var hostilePIDs = []string{"", "0", "-1", "-0", "abc", "12x", " 12", "+7", "007", "99999999999999999999999", "1e3", "0x10", "１２", "\x00", "2147483648"}

var hostileConstants = []string{
	"Accepted publickey", "Accepted publickey ", "Accepted publickey for", "Accepted publickey for a from b port c ssh2: d:e",
	"Accepted publickey for a from b port c ssh2: d:e ", "Accepted publickey for a from b port c ssh2: d:e x",
	"Accepted publickey for a from b port c ssh2: d:e ID x (serial 1)", "Accepted publickey for a from b port c ssh2: d:e ID x (serial 1) ",
	"Accepted publickey for a from b port c ssh2: d:e ID  (serial 1) CA x",
	"Accepted publickeyX Accepted publickey for a from b port c ssh2: d:e",
	"Accepted password", "Accepted password for a from b port 1 ssh2", "Accepted password for a from b port x ssh2",
	"Certificate invalid", "Certificate invalid:", "Certificate invalid: ", "Certificate invalid: x", "Certificate invalidX",
	"Invalid user", "Invalid user ", "Invalid user  from  port 1", "Invalid user a from b port", "Invalid user a from b port 1",
	"User ", "User  from  not allowed because not listed in AllowUsers", "User a not allowed because shell  does not exist",
	"User a", "User a from b not allowed because", "User a from b not allowed because listed in DenyUsers ",
	"ROOT LOGIN REFUSED FROM", "ROOT LOGIN REFUSED FROM  port ", "ROOT LOGIN REFUSED FROM a port b",
	"Authentication refused for : bad owner or modes for ", "Nasty PTR record \"\" is set up for , ignoring",
	"reverse mapping checking getaddrinfo for  [] failed.", "reverse mapping checking getaddrinfo for a [b] failedX",
	"Address  maps to , but this does not map back to the address.", "Address a maps to b, but this does not map back to the addressX",
	"maximum authentication attempts exceeded for  from  port  ssh2", "maximum authentication attempts exceeded for a from b port c ssh",
	"Authentication key a b revoked by file ", "Authentication key  b revoked by file c",
	"Error checking authentication key a b in revoked keys file ", "Failed password for  from  port 1 ssh2",
	"Failed password for a from b port 1 ssh2 ", "Failed password for a from b port 1 ssh",
	"", " ", "\n", "\x00", "\xff\xfe", "Accepted", "accepted publickey for a from b port c ssh2: d:e",
}

func genJunk(rt *rapid.T) junkLine {
	j := junkLine{}
	if rapid.IntRange(0, 2).Draw(rt, "pidk") == 0 {
		j.PID = pick(rt, "hpid", hostilePIDs)
	} else {
		j.PID = genPIDToken(rt, "pid")
	}
	kind := rapid.IntRange(0, 11).Draw(rt, "kind")
	switch {
	case kind == 0:
		j.Kind = "random_bytes"
		j.Msg = rapid.SliceOfN(rapid.Byte(), 0, 200).Draw(rt, "bytes")
	case kind == 1:
		j.Kind = "hostile_constant"
		j.Msg = []byte(pick(rt, "const", hostileConstants))
	case kind == 2:
		j.Kind = "keyword_plus_bytes"
		j.Msg = append([]byte(pick(rt, "kw", recognisedKeywords)), rapid.SliceOfN(rapid.Byte(), 0, 80).Draw(rt, "bytes")...)
	case kind == 3:
		j.Kind = "very_long"
		m := genSshdMsg(rt)
		n := rapid.IntRange(1000, 70000).Draw(rt, "n")
		fs := pick(rt, "fill", []string{"A", " from ", " port 1 ssh2", "\xff", "é", " "})
		filler := strings.Repeat(fs, n/len(fs)+1)
		pos := rapid.IntRange(0, len(m.Msg)).Draw(rt, "pos")
		j.Msg = []byte(m.Msg[:pos] + filler[:n] + m.Msg[pos:])
	default:
		m := genSshdMsg(rt)
		s := m.Msg
		toks := strings.Split(s, " ")
		switch mut := rapid.IntRange(0, 10).Draw(rt, "mut"); mut {
		case 10: // hostile bytes inside a field, structure kept
			j.Kind = "bytes_inside_field"
			k := rapid.IntRange(0, len(toks)-1).Draw(rt, "k")
			ins := rapid.SliceOfN(rapid.SampledFrom([]byte{0, 1, 7, 8, 11, 12, 27, 127, 128, 255, '"', '\\', 0xc3, 0xe2}), 1, 3).Draw(rt, "ins")
			tk := toks[k]
			pos := rapid.IntRange(0, len(tk)).Draw(rt, "pos")
			toks2 := append([]string{}, toks...)
			toks2[k] = tk[:pos] + string(ins) + tk[pos:]
			s = strings.Join(toks2, " ")
		case 0: // truncate at a token boundary
			j.Kind = "truncate_token"
			k := rapid.IntRange(0, len(toks)).Draw(rt, "k")
			s = strings.Join(toks[:k], " ")
			if rapid.Bool().Draw(rt, "trailsp") {
				s += " "
			}
		case 1: // truncate at any byte
			j.Kind = "truncate_byte"
			s = s[:rapid.IntRange(0, len(s)).Draw(rt, "k")]
		case 2: // keyword change
			j.Kind = "keyword_change"
			b := []byte(s)
			k := rapid.IntRange(0, imin(len(b)-1, 25)).Draw(rt, "k")
			b[k] = rapid.Byte().Draw(rt, "b")
			s = string(b)
		case 3: // prefix text
			j.Kind = "prefixed"
			s = pick(rt, "pre", []string{" ", "x", "error: ", "sshd[12]: ", "\t", "Accepted ", "User ", "\n", "error: \n", "x\r\n", "\x00"}) + s
		case 4: // duplicate a segment
			j.Kind = "duplicated_segment"
			a := rapid.IntRange(0, len(toks)-1).Draw(rt, "a")
			b := rapid.IntRange(a, len(toks)-1).Draw(rt, "b")
			nt := append(append(append([]string{}, toks[:b+1]...), toks[a:b+1]...), toks[b+1:]...)
			s = strings.Join(nt, " ")
		case 5: // splice two messages
			j.Kind = "spliced"
			m2 := genSshdMsgForm(rt, pick(rt, "form2", sshdForms))
			k := rapid.IntRange(0, len(s)).Draw(rt, "k")
			k2 := rapid.IntRange(0, len(m2.Msg)).Draw(rt, "k2")
			s = s[:k] + m2.Msg[k2:]
		case 6: // append trailing bytes
			j.Kind = "trailing_bytes"
			s += string(rapid.SliceOfN(rapid.Byte(), 1, 3).Draw(rt, "tb"))
		case 7: // drop a token
			j.Kind = "dropped_token"
			k := rapid.IntRange(0, len(toks)-1).Draw(rt, "k")
			s = strings.Join(append(append([]string{}, toks[:k]...), toks[k+1:]...), " ")
		case 8: // replace a token with bytes
			j.Kind = "token_replaced"
			k := rapid.IntRange(0, len(toks)-1).Draw(rt, "k")
			toks2 := append([]string{}, toks...)
			toks2[k] = string(rapid.SliceOfN(rapid.Byte(), 0, 12).Draw(rt, "tb"))
			s = strings.Join(toks2, " ")
		default: // case change of keyword
			j.Kind = "case_changed"
			if rapid.Bool().Draw(rt, "up") {
				s = strings.ToUpper(s[:imin(len(s), 12)]) + s[imin(len(s), 12):]
			} else {
				s = strings.ToLower(s[:imin(len(s), 12)]) + s[imin(len(s), 12):]
			}
		}
		j.Msg = []byte(s)
	}
	return j
}

// ---------------------------------------------------------------------------
// G-SSHD-hostile: client-chosen user names (C17).

type hostileCase struct {
	Form string `json:"form"` // invalid_user | failed_password | failed_password_invalid | max_auth | max_auth_invalid
	Name string `json:"name"`
	Addr string `json:"addr"`
	Port string `json:"port"`
	PID  string `json:"pid"`
}

var hostileForms = []string{"invalid_user", "failed_password", "failed_password_invalid", "max_auth", "max_auth_invalid"}

func genHostileName(rt *rapid.T) string {
	frag := func(l string) string {
		var f []string
		a := genAddr(rt, l+".a", &f)
		return " from " + a + " port " + genPort(rt, l+".p")
	}
	var s string
	switch rapid.IntRange(0, 12).Draw(rt, "nk") {
	case 12:
		// a name around a phrase that other message forms are recognised by
		var f []string
		s = genAccount(rt, "u", &f) + pick(rt, "phrase", []string{": bad owner or modes for ", " revoked by file ", " in revoked keys file ",
			" not allowed because ", " ROOT LOGIN REFUSED FROM ", " is set up for ", " maximum authentication attempts exceeded for ",
			" Certificate invalid: ", " ID x (serial 1) CA ", " Accepted password for ", " Accepted publickey for ", " Failed password for ",
			" Invalid user ", " reverse mapping checking getaddrinfo for ", " POSSIBLE BREAK-IN ATTEMPT!", " [preauth]", ": "}) + genAccount(rt, "u2", &f)
	case 9:
		// long names, up to sshd's %.100s truncation
		n := rapid.IntRange(80, 100).Draw(rt, "longn")
		s = genStringOf(rt, "long", []rune("abcdefghijklmnopqrstuvwxyz0123456789_-. "), n, n)
		if rapid.Bool().Draw(rt, "longfrom") {
			frag := " from 6.6.6.6 port 1 xx"
			s = s[:n-len(frag)] + frag
		}
	case 10:
		// a whole sshd message of another form as the "name"
		switch rapid.IntRange(0, 3).Draw(rt, "emb") {
		case 0:
			s = "Accepted password for root from 10.0.0.1 port 22 ssh2"
		case 1:
			s = "Accepted publickey for root from 10.0.0.1 port 22 ssh2: RSA SHA256:abcd"
		case 2:
			s = "Accepted publickey for root from 10.0.0.1 port 22 ssh2: RSA-CERT SHA256:abcd ID evil (serial 1) CA RSA SHA256:ca"
		default:
			m := genSshdMsg(rt)
			s = m.Msg
		}
	case 0:
		s = pick(rt, "c", []string{"", " ", "  ", "a b", " a", "a ", "from", "port", " from ", " port ", "ssh2", " ssh2", "invalid user x",
			"x from 6.6.6.6 port 1", "x from 6.6.6.6 port 1 ssh2", "root from ::1 port 22", "a  b", "\t", "x from y", "x port 9"})
	case 1, 2:
		s = genStringOf(rt, "pr", []rune("abcdefghijklmnopqrstuvwxyzABC0123456789 _.@-$!#%&*()[]{}<>?/\\|~^=+:;,'\"`é日"), 0, 100)
	case 3, 4, 5:
		var f []string
		s = genAccount(rt, "u", &f) + frag("f1")
		if rapid.Bool().Draw(rt, "ssh") {
			s += " ssh2"
		}
		if rapid.IntRange(0, 3).Draw(rt, "twice") == 0 {
			s += frag("f2")
		}
	case 6:
		s = frag("f1")
	case 7:
		toks := []string{"from", "port", "ssh2", "invalid", "user", "1.2.3.4", "22", "::1", "x", "for", "Failed", "password",
			"error:", "fatal:", "debug1:", "sshd[77]:", "build#101", "dev#007", "pr#012"}
		n := rapid.IntRange(1, 10).Draw(rt, "n")
		parts := make([]string, n)
		for i := range parts {
			parts[i] = pick(rt, "t", toks)
		}
		s = strings.Join(parts, " ")
	default:
		var f []string
		s = genAccount(rt, "u", &f)
		if rapid.Bool().Draw(rt, "lead") {
			s = " " + s
		}
		if rapid.Bool().Draw(rt, "trail") {
			s += " "
		}
		if rapid.Bool().Draw(rt, "mid") {
			s += " " + genAccount(rt, "u2", &f)
		}
	}
	r := []rune(s)
	if len(r) > 100 {
		s = string(r[:100])
	}
	// sshd's %.100s truncates bytes; keep valid UTF-8 by truncating runes until <=100 bytes.
	for len(s) > 100 {
		r := []rune(s)
		s = string(r[:len(r)-1])
	}
	return s
}

func genHostile(rt *rapid.T) hostileCase {
	var f []string
	return hostileCase{
		Form: pick(rt, "form", hostileForms),
		Name: genHostileName(rt),
		Addr: genAddr(rt, "peer", &f),
		Port: genPort(rt, "peerport"),
		PID:  genPIDToken(rt, "pid"),
	}
}

func (h hostileCase) Message() string {
	switch h.Form {
	case "invalid_user":
		return fmt.Sprintf("Invalid user %s from %s port %s", h.Name, h.Addr, h.Port)
	case "failed_password":
		return fmt.Sprintf("Failed password for %s from %s port %s ssh2", h.Name, h.Addr, h.Port)
	case "failed_password_invalid":
		return fmt.Sprintf("Failed password for invalid user %s from %s port %s ssh2", h.Name, h.Addr, h.Port)
	case "max_auth":
		return fmt.Sprintf("maximum authentication attempts exceeded for %s from %s port %s ssh2", h.Name, h.Addr, h.Port)
	default:
		return fmt.Sprintf("maximum authentication attempts exceeded for invalid user %s from %s port %s ssh2", h.Name, h.Addr, h.Port)
	}
}
