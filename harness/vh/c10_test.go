package vh

import (
	"encoding/json"
	"fmt"
	"os"
	"runtime"
	"strconv"
	"strings"
	"sync"
	"syscall"
	"testing"
	"time"

	"pgregory.net/rapid"
)

// Daemon-level scenarios: C10 (whole JSON events in causal order) and the
// daemon level of C01 (identity) — many sessions, both pipes written at once.

type dSession struct {
	PID     int      `json:"pid"`
	Ses     int      `json:"ses"`
	Login   string   `json:"login"`  // sshd line (message part)
	Events  []string `json:"events"` // record types of the session's events after its LOGIN record
	BigArgs int      `json:"big_args"`
	Disp    bool     `json:"disp"`
}

type dScenario struct {
	Sessions   []dSession `json:"sessions"`
	Failures   []string   `json:"failures"` // failure lines interleaved on the sshd pipe (pid 5000+i)
	Noise      int        `json:"noise"`    // session-less audit records sprinkled in
	AudOrder   []int      `json:"aud_order"`
	SshdChunk  int        `json:"sshd_chunk"`
	AudChunk   int        `json:"aud_chunk"`
	SshdPauseU int        `json:"sshd_pause_us"`
	AudPauseU  int        `json:"aud_pause_us"`
	LoginLead  int        `json:"login_lead"` // 0: both writers start together; 1: sshd first; 2: audit first
	Race       bool       `json:"race"`
}

func genScenario(rt *rapid.T) dScenario {
	maxN := 40
	if thorough() {
		maxN = 300
	}
	n := rapid.IntRange(5, maxN).Draw(rt, "n")
	sc := dScenario{}
	for i := 0; i < n; i++ {
		s := dSession{PID: 10000 + i, Ses: 20000 + i}
		switch i % 4 { // kernel session ids are unsigned 32-bit numbers
		case 3:
			s.Ses = 2147483648 + i
		case 2:
			s.Ses = 4294967000 + i%290
		}
		var f []string
		m := genSshdMsgForm(rt, pick(rt, "form", acceptedForms))
		if m.HasCert && m.KeyID == "" {
			// an empty certificate key ID makes the correlator reject the login and the
			// daemon stop (fail-stop, C15): not part of a well-formed traffic scenario
			m = genSshdMsgForm(rt, "accepted_password")
		}
		_ = f
		s.Login = m.Msg
		for k := rapid.IntRange(0, 5).Draw(rt, "nev"); k > 0; k-- {
			s.Events = append(s.Events, pick(rt, "t", []string{"SYSCALL", "SYSCALL", "USER_START", "USER_END", "CRED_ACQ", "USER_CMD"}))
		}
		if rapid.IntRange(0, 3).Draw(rt, "big") == 0 {
			s.BigArgs = rapid.IntRange(20, 120).Draw(rt, "bigargs")
		}
		s.Disp = rapid.IntRange(0, 3).Draw(rt, "disp") != 0
		sc.Sessions = append(sc.Sessions, s)
	}
	for i := rapid.IntRange(0, n).Draw(rt, "nfail"); i > 0; i-- {
		sc.Failures = append(sc.Failures, genSshdMsgForm(rt, pick(rt, "ff", []string{"failed_password", "invalid_user", "root_login_refused", "cert_invalid", "user_in_denyusers"})).Msg)
	}
	sc.Noise = rapid.IntRange(0, n).Draw(rt, "noise")
	// audit order: interleave sessions (each session's records stay in order)
	total := 0
	for _, s := range sc.Sessions {
		total += 1 + len(s.Events)
		if s.Disp {
			total++
		}
	}
	burst := rapid.IntRange(1, 4).Draw(rt, "burst")
	for len(sc.AudOrder) < total {
		k := rapid.IntRange(0, n-1).Draw(rt, "which")
		for b := 0; b < burst; b++ {
			sc.AudOrder = append(sc.AudOrder, k)
		}
	}
	sc.SshdChunk = pick(rt, "sc", []int{1, 7, 100, 4096, 1 << 16})
	sc.AudChunk = pick(rt, "ac", []int{13, 512, 4096, 1 << 16, 1 << 18})
	sc.SshdPauseU = pick(rt, "sp", []int{0, 0, 50, 500})
	sc.AudPauseU = pick(rt, "ap", []int{0, 0, 50, 500})
	sc.LoginLead = rapid.IntRange(0, 2).Draw(rt, "lead")
	return sc
}

type dExpect struct {
	loginPIDs   map[string]bool   // pid token -> accepted login expected
	failurePIDs map[string]bool   // pid token -> failed UserLogin expected
	actions     map[string]string // "ses|loggedAtMs" -> pid token of the owning login
	pidOfSes    map[string]string
	markerKey   string
}

// renderScenario produces the two byte streams and the expectation.
func renderScenario(sc dScenario) (sshd []byte, aud []byte, ex dExpect) {
	ex = dExpect{loginPIDs: map[string]bool{}, failurePIDs: map[string]bool{}, actions: map[string]string{}, pidOfSes: map[string]string{}}
	var sb, ab strings.Builder
	// sshd stream: logins with failures sprinkled in between
	fi := 0
	for i, s := range sc.Sessions {
		fmt.Fprintf(&sb, "%d %s\n", s.PID, s.Login)
		ex.loginPIDs[strconv.Itoa(s.PID)] = true
		if fi < len(sc.Failures) && i%2 == 0 {
			pid := 5000 + fi
			fmt.Fprintf(&sb, "%d  %s\n", pid, sc.Failures[fi])
			ex.failurePIDs[strconv.Itoa(pid)] = true
			fi++
		}
	}
	for ; fi < len(sc.Failures); fi++ {
		pid := 5000 + fi
		fmt.Fprintf(&sb, "%d %s\n", pid, sc.Failures[fi])
		ex.failurePIDs[strconv.Itoa(pid)] = true
	}
	// audit stream
	idx := 0
	next := make([]int, len(sc.Sessions))
	emit := func(ae audEvent, ses int, pid int) {
		for _, l := range ae.Lines {
			ab.WriteString(l)
			ab.WriteByte('\n')
		}
		if ses >= 0 {
			ex.actions[fmt.Sprintf("%d|%d", ses, evTime(ae.TsIdx).UnixMilli())] = strconv.Itoa(pid)
		}
	}
	recOf := func(k int) (audEvent, bool) {
		s := sc.Sessions[k]
		j := next[k]
		nrec := 1 + len(s.Events)
		if s.Disp {
			nrec++
		}
		if j >= nrec {
			return audEvent{}, false
		}
		next[k]++
		idx++
		ses := strconv.Itoa(s.Ses)
		switch {
		case j == 0:
			return buildAudEvent("LOGIN", idx, 50000+idx, defaultAudFields("LOGIN", ses, strconv.Itoa(s.PID), idx)), true
		case j <= len(s.Events):
			typ := s.Events[j-1]
			f := defaultAudFields(typ, ses, "800", idx)
			if typ == "SYSCALL" && s.BigArgs > 0 {
				f.Args = []string{"bigcmd"}
				for a := 0; a < s.BigArgs; a++ {
					f.Args = append(f.Args, fmt.Sprintf("--option-%d=%s", a, strings.Repeat("v", 40)))
				}
			}
			return buildAudEvent(typ, idx, 50000+idx, f), true
		default:
			return buildAudEvent("CRED_DISP", idx, 50000+idx, defaultAudFields("CRED_DISP", ses, "800", idx)), true
		}
	}
	noiseLeft := sc.Noise
	for n, k := range sc.AudOrder {
		if ae, ok := recOf(k); ok {
			s := sc.Sessions[k]
			ex.pidOfSes[strconv.Itoa(s.Ses)] = strconv.Itoa(s.PID)
			emit(ae, s.Ses, s.PID)
		}
		if noiseLeft > 0 && n%3 == 0 {
			noiseLeft--
			idx++
			emit(buildAudEvent("USER_ACCT", idx, 50000+idx, defaultAudFields("USER_ACCT", "4294967295", "1", idx)), -1, 0)
		}
	}
	for k := range sc.Sessions { // whatever the order did not reach
		for {
			ae, ok := recOf(k)
			if !ok {
				break
			}
			s := sc.Sessions[k]
			ex.pidOfSes[strconv.Itoa(s.Ses)] = strconv.Itoa(s.PID)
			emit(ae, s.Ses, s.PID)
		}
	}
	// marker session: last on both pipes
	const mPID, mSes = 999999, 99999
	fmt.Fprintf(&sb, "%d Accepted password for marker from 127.0.0.1 port 1 ssh2\n", mPID)
	ex.loginPIDs[strconv.Itoa(mPID)] = true
	ex.pidOfSes[strconv.Itoa(mSes)] = strconv.Itoa(mPID)
	idx++
	emit(buildAudEvent("LOGIN", idx, 50000+idx, defaultAudFields("LOGIN", strconv.Itoa(mSes), strconv.Itoa(mPID), 0)), mSes, mPID)
	idx++
	disp := buildAudEvent("CRED_DISP", idx, 50000+idx, defaultAudFields("CRED_DISP", strconv.Itoa(mSes), "1", 0))
	emit(disp, mSes, mPID)
	ex.markerKey = fmt.Sprintf("%d|%d", mSes, evTime(disp.TsIdx).UnixMilli())
	return []byte(sb.String()), []byte(ab.String()), ex
}

func writeChunked(w *os.File, data []byte, chunk, pauseU int) {
	for off := 0; off < len(data); off += chunk {
		end := off + chunk
		if end > len(data) {
			end = len(data)
		}
		if _, err := w.Write(data[off:end]); err != nil {
			return
		}
		if pauseU > 0 {
			time.Sleep(time.Duration(pauseU) * time.Microsecond)
		} else if chunk < 512 {
			runtime.Gosched()
		}
	}
}

type outEvent struct {
	Metadata struct {
		AuditID string `json:"auditId"`
	} `json:"metadata"`
	Type      string            `json:"type"`
	LoggedAt  time.Time         `json:"loggedAt"`
	Source    json.RawMessage   `json:"source"`
	Outcome   string            `json:"outcome"`
	Subjects  map[string]string `json:"subjects"`
	Component string            `json:"component"`
	Target    json.RawMessage   `json:"target"`
}

type scenarioResult struct {
	exitedEarly bool
	missing int
	lines  []string
	events []outEvent
	stderr string
	ex     dExpect
}

// runScenario drives the daemon and returns its complete output.
func runScenario(sc dScenario) (scenarioResult, error) {
	sshdData, audData, ex := renderScenario(sc)
	d := startDaemon(daemonOpts{Race: sc.Race})
	defer d.cleanup()
	sw, err := d.openWriter(d.sshdPipe)
	if err != nil {
		panic(&infraError{err.Error() + "; stderr: " + tailStr(d.stderrText(), 500)})
	}
	defer sw.Close()
	aw, err := d.openWriter(d.audPipe)
	if err != nil {
		panic(&infraError{err.Error() + "; stderr: " + tailStr(d.stderrText(), 500)})
	}
	defer aw.Close()
	var wg sync.WaitGroup
	wg.Add(2)
	go func() {
		defer wg.Done()
		if sc.LoginLead == 2 {
			time.Sleep(3 * time.Millisecond)
		}
		writeChunked(sw, sshdData, sc.SshdChunk, sc.SshdPauseU)
	}()
	go func() {
		defer wg.Done()
		if sc.LoginLead == 1 {
			time.Sleep(3 * time.Millisecond)
		}
		writeChunked(aw, audData, sc.AudChunk, sc.AudPauseU)
	}()
	wg.Wait()
	markerNeedle := func(out string) bool {
		// the marker session's CRED_DISP UserAction
		i := strings.LastIndex(out, `"auditId":"99999"`)
		return i >= 0 && strings.Count(out, `"auditId":"99999"`) >= 2 && strings.HasSuffix(out, "\n")
	}
	if !d.waitForOutput(60*time.Second, markerNeedle) {
		if _, ok := d.waitExit(0); ok {
			// the daemon gave up (fail-stop on some error): judge what it wrote
			res := scenarioResult{ex: ex, exitedEarly: true}
			res.lines = d.outputLines()
			res.stderr = d.stderrText()
			return res, nil
		}
		dump := d.dumpAndKill()
		panic(&infraError{"marker session did not appear within 60s; goroutines:\n" + dump})
	}
	time.Sleep(30 * time.Millisecond) // grace: anything still in flight
	res := scenarioResult{ex: ex}
	res.lines = d.outputLines()
	_ = d.cmd.Process.Signal(syscall.SIGTERM)
	d.waitExit(10 * time.Second)
	res.stderr = d.stderrText()
	final := d.outputLines()
	if len(final) != len(res.lines) {
		res.lines = final // emitted after the marker (reassembler flush on exit)
	}
	return res, nil
}

func (r *scenarioResult) parse() error {
	for i, l := range r.lines {
		keys, err := jsonKeys(l)
		if err != nil {
			return fmt.Errorf("output line %d is not one complete JSON event (%v): %q", i+1, err, head(l)+"..."+tailStr(l, 60))
		}
		for _, k := range []string{"metadata", "type", "loggedAt", "source", "outcome", "subjects", "component"} {
			if _, ok := keys[k]; !ok {
				return fmt.Errorf("output line %d lacks key %q: %q", i+1, k, head(l))
			}
		}
		var ev outEvent
		if err := json.Unmarshal([]byte(l), &ev); err != nil {
			return fmt.Errorf("output line %d does not decode as an audit event: %v", i+1, err)
		}
		r.events = append(r.events, ev)
	}
	return nil
}

// oracleC10: whole JSON events, the right multiset, causal order, no data race.
func oracleC10(r *scenarioResult) (alternations int, err error) {
	if err := r.parse(); err != nil {
		return 0, err
	}
	if strings.Contains(r.stderr, "DATA RACE") {
		i := strings.Index(r.stderr, "WARNING: DATA RACE")
		return 0, fmt.Errorf("race detector report in the daemon:\n%s", r.stderr[i:imin(len(r.stderr), i+3000)])
	}
	seenLogin := map[string]int{}
	seenAction := map[string]int{}
	loginLine := map[string]int{}
	prevComp := ""
	for i, ev := range r.events {
		if ev.Component != prevComp {
			alternations++
			prevComp = ev.Component
		}
		switch ev.Type {
		case "UserLogin":
			pid := ev.Subjects["pid"]
			seenLogin[pid]++
			if _, ok := loginLine[pid]; !ok {
				loginLine[pid] = i
			}
		case "UserAction":
			key := fmt.Sprintf("%s|%d", ev.Metadata.AuditID, ev.LoggedAt.UnixMilli())
			seenAction[key]++
			li, ok := loginLine[ev.Subjects["pid"]]
			if !ok || li > i {
				return 0, fmt.Errorf("output line %d: UserAction %s carries the identity of login pid %s whose UserLogin has not been written yet", i+1, key, ev.Subjects["pid"])
			}
		default:
			return 0, fmt.Errorf("output line %d: unexpected event type %q", i+1, ev.Type)
		}
	}
	// written twice? (whether every expected event is present at all is the
	// concern of C02/C05/C06, not of this property)
	for pid, n := range seenLogin {
		if n > 1 {
			return 0, fmt.Errorf("UserLogin for pid %s written %d times", pid, n)
		}
	}
	for key, n := range seenAction {
		if n > 1 {
			return 0, fmt.Errorf("UserAction %s written %d times", key, n)
		}
	}
	missing := 0
	for pid := range r.ex.loginPIDs {
		if seenLogin[pid] == 0 {
			missing++
		}
	}
	for key := range r.ex.actions {
		if seenAction[key] == 0 {
			missing++
		}
	}
	r.missing = missing
	return alternations, nil
}

// oracleC01Daemon: each UserAction carries exactly the identity of the
// UserLogin whose pid is the pid of the LOGIN record that opened its session.
func oracleC01Daemon(r *scenarioResult) (int, error) {
	if err := r.parse(); err != nil {
		return 0, err
	}
	type ident struct{ subjects, source, target string }
	logins := map[string]ident{}
	for _, ev := range r.events {
		if ev.Type == "UserLogin" && ev.Outcome == "succeeded" {
			logins[ev.Subjects["pid"]] = ident{jsonOf(ev.Subjects), string(ev.Source), string(ev.Target)}
		}
	}
	checked := 0
	for i, ev := range r.events {
		if ev.Type != "UserAction" {
			continue
		}
		pid, ok := r.ex.pidOfSes[ev.Metadata.AuditID]
		if !ok {
			return 0, fmt.Errorf("output line %d: UserAction for session %q that no LOGIN record opened", i+1, ev.Metadata.AuditID)
		}
		want, ok := logins[pid]
		if !ok {
			return 0, fmt.Errorf("output line %d: UserAction of session %s (opened by pid %s) but no such login was written", i+1, ev.Metadata.AuditID, pid)
		}
		got := ident{jsonOf(ev.Subjects), string(ev.Source), string(ev.Target)}
		if got != want {
			return 0, fmt.Errorf("output line %d: UserAction of session %s (opened by pid %s) carries identity %v, want %v", i+1, ev.Metadata.AuditID, pid, got, want)
		}
		checked++
	}
	return checked, nil
}

func execC10(sc dScenario) Outcome {
	res, err := runScenario(sc)
	if err != nil {
		return Outcome{Err: err}
	}
	alt, err := oracleC10(&res)
	if err != nil {
		return Outcome{Err: err}
	}
	labels := []string{fmt.Sprintf("sessions:%d+", len(sc.Sessions)/50*50)}
	if alt >= 10 {
		labels = append(labels, "pipelines_alternate_10+_times")
	}
	addExtra("c10.daemon", "output_lines", len(res.lines))
	if res.missing > 0 {
		addExtra("c10.daemon", "expected_events_absent_(not_judged_here)", res.missing)
	}
	if res.exitedEarly {
		addExtra("c10.daemon", "daemon_exited_before_the_marker_(not_judged_here)", 1)
	}
	return Outcome{NT: alt >= 10, Labels: labels}
}

func execC01Daemon(sc dScenario) Outcome {
	res, err := runScenario(sc)
	if err != nil {
		return Outcome{Err: err}
	}
	n, err := oracleC01Daemon(&res)
	if err != nil {
		return Outcome{Err: err}
	}
	addExtra("c01.daemon", "useractions_checked", n)
	return Outcome{NT: len(sc.Sessions) >= 2 && n >= 2, Labels: []string{fmt.Sprintf("sessions:%d+", len(sc.Sessions)/50*50)}}
}

func TestC10_Daemon(t *testing.T) {
	RunProp(t, "c10.daemon", func(rt *rapid.T) dScenario {
		sc := genScenario(rt)
		sc.Race = true
		return sc
	}, retryFlaky("c10.daemon", execC10))
}

func TestC01_Daemon(t *testing.T) {
	RunProp(t, "c01.daemon", genScenario, retryFlaky("c01.daemon", execC01Daemon))
}


// ---------------------------------------------------------------------------
// C10 under the cooperative scheduler: for all hand-off orders of a login and
// the events of its session, no event is written twice. (Atomicity as such is
// C03's concern; here only "written twice" is judged, on the same programs.)

func execC10Sched(c c03Case) Outcome {
	in := newC03Instance(c.Prog, true)
	in.runSequentialPart(false)
	choose := func(k, n int) int {
		if len(c.Schedule) == 0 {
			return 0
		}
		return c.Schedule[k%len(c.Schedule)] % n
	}
	res := runSchedule(in.threadFns(), choose, c.MaxPre)
	if res.Inconcl != "" {
		panic(&infraError{res.Inconcl})
	}
	if res.Deadlock {
		return Outcome{Skip: "deadlock_(C03's_concern)"}
	}
	in.runSequentialPart(true)
	seen := map[string]int{}
	for _, e := range in.rec.Events() {
		k := fmt.Sprintf("%s|%d", e.Ev.Metadata.AuditID, opIndexOf(e.Ev.LoggedAt))
		seen[k]++
		if seen[k] > 1 {
			return fail("audit event (session %s, op %d) was written %d times under schedule %v; program %s", e.Ev.Metadata.AuditID, opIndexOf(e.Ev.LoggedAt), seen[k], res.Trace, c.Prog)
		}
	}
	return Outcome{NT: res.Preemptions >= 1, Labels: []string{fmt.Sprintf("threads:%d", len(c.Prog.Threads))}}
}

func TestC10_Sched(t *testing.T) { RunProp(t, "c10.sched", genC03, execC10Sched) }

// ---------------------------------------------------------------------------
// C10 burst: events of several KiB on the audit pipe while the sshd pipe is
// flooded — the situation in which a torn or interleaved write shows.

type dBurst struct {
	BigEvents int  `json:"big_events"`
	ArgBytes  int  `json:"arg_bytes"`
	SshdLines int  `json:"sshd_lines"`
	Race      bool `json:"race"`
}

func execC10Burst(b dBurst) Outcome {
	d := startDaemon(daemonOpts{Race: b.Race})
	defer d.cleanup()
	sw, err := d.openWriter(d.sshdPipe)
	if err != nil {
		panic(&infraError{err.Error()})
	}
	defer sw.Close()
	aw, err := d.openWriter(d.audPipe)
	if err != nil {
		panic(&infraError{err.Error()})
	}
	defer aw.Close()
	// one correlated session
	fmt.Fprintf(sw, "4242 Accepted password for burst from 10.9.9.9 port 22 ssh2\n")
	login := buildAudEvent("LOGIN", 1, 60001, defaultAudFields("LOGIN", "4100", "4242", 0))
	fmt.Fprintln(aw, login.Lines[0])
	if !d.waitForOutput(30*time.Second, func(o string) bool { return strings.Count(o, "\n") >= 2 }) {
		panic(&infraError{"session not correlated within 30s: " + tailStr(d.stderrText(), 400)})
	}
	var ab strings.Builder
	for i := 0; i < b.BigEvents; i++ {
		f := defaultAudFields("SYSCALL", "4100", "800", 0)
		f.Result = "yes"
		f.Args = []string{"bigcmd", strings.Repeat("a", b.ArgBytes)}
		for _, l := range buildAudEvent("SYSCALL", 10+i, 60010+i, f).Lines {
			ab.WriteString(l)
			ab.WriteByte('\n')
		}
	}
	disp := buildAudEvent("CRED_DISP", 5, 60010+b.BigEvents+5, defaultAudFields("CRED_DISP", "4100", "4242", 0))
	ab.WriteString(disp.Lines[0] + "\n")
	var sb strings.Builder
	for i := 0; i < b.SshdLines; i++ {
		fmt.Fprintf(&sb, "%d Invalid user flood%d from 10.0.%d.%d port %d\n", 100000+i, i, (i/250)%250, i%250, 1024+i%60000)
	}
	var wg sync.WaitGroup
	wg.Add(2)
	go func() { defer wg.Done(); writeChunked(aw, []byte(ab.String()), 1<<16, 0) }()
	go func() { defer wg.Done(); writeChunked(sw, []byte(sb.String()), 1<<16, 0) }()
	wg.Wait()
	want := 2 + b.BigEvents + 1 + b.SshdLines
	lastPid := fmt.Sprintf("\"pid\":\"%d\"", 100000+b.SshdLines-1)
	done := func(o string) bool {
		return strings.Contains(o, "disposed-credentials") && strings.Contains(o, lastPid) && strings.HasSuffix(o, "\n")
	}
	if !d.waitForOutput(120*time.Second, done) {
		if _, ok := d.waitExit(0); !ok {
			dump := d.dumpAndKill()
			panic(&infraError{"burst not processed within 120s:\n" + dump})
		}
	}
	time.Sleep(50 * time.Millisecond)
	res := scenarioResult{lines: d.outputLines()}
	_ = d.cmd.Process.Signal(syscall.SIGTERM)
	d.waitExit(10 * time.Second)
	res.stderr = d.stderrText()
	res.lines = d.outputLines()
	if err := res.parse(); err != nil {
		return Outcome{Err: fmt.Errorf("%d big events of %d bytes against %d sshd lines: %w", b.BigEvents, b.ArgBytes, b.SshdLines, err)}
	}
	if strings.Contains(res.stderr, "DATA RACE") {
		i := strings.Index(res.stderr, "WARNING: DATA RACE")
		return fail("race detector report in the daemon:\n%s", res.stderr[i:imin(len(res.stderr), i+3000)])
	}
	seen := map[string]int{}
	for i, ev := range res.events {
		k := ev.Type + "|" + ev.Metadata.AuditID + "|" + ev.Subjects["pid"] + "|" + fmt.Sprint(ev.LoggedAt.UnixNano())
		if ev.Type == "UserLogin" {
			k = "UserLogin|" + ev.Subjects["pid"]
		}
		seen[k]++
		if seen[k] > 1 {
			return fail("output line %d: event %s written %d times", i+1, k, seen[k])
		}
	}
	addExtra("c10.burst", "output_lines", len(res.lines))
	if len(res.lines) != want {
		addExtra("c10.burst", "line_count_differs_from_expectation_(not_judged_here)", 1)
	}
	return Outcome{NT: true, Labels: []string{fmt.Sprintf("arg_bytes:%d", b.ArgBytes)}}
}

func TestC10_Burst(t *testing.T) {
	RunProp(t, "c10.burst", func(rt *rapid.T) dBurst {
		return dBurst{BigEvents: rapid.IntRange(800, 3000).Draw(rt, "big"), ArgBytes: pick(rt, "arg", []int{4200, 5000, 9000, 3900}),
			SshdLines: rapid.IntRange(20000, 80000).Draw(rt, "sshd"), Race: rapid.Bool().Draw(rt, "race")}
	}, retryFlaky("c10.burst", execC10Burst))
}
