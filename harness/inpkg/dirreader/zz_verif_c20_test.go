package dirreader

// Verification harness for C20 (white-box: uses the unexported fileSystem and
// fsWatcher interfaces). Overlaid into the package at check time; never
// written to the repository. All identifiers carry the vf prefix.

import (
	"context"
	"errors"
	"fmt"
	"io"
	"io/fs"
	"os"
	"path/filepath"
	"sort"
	"strings"
	"sync"
	"testing"
	"time"

	"github.com/fsnotify/fsnotify"
	"pgregory.net/rapid"
)

func TestMain(m *testing.M) {
	code := m.Run()
	flushStats()
	os.Exit(code)
}

// --- in-memory file system with OS semantics --------------------------------

type vfInode struct{ data []byte }

type vfFS struct {
	mu    sync.Mutex
	files map[string]*vfInode
}

func (f *vfFS) Open(p string) (statReadSeekCloser, error) {
	f.mu.Lock()
	defer f.mu.Unlock()
	ino, ok := f.files[p]
	if !ok {
		return nil, &fs.PathError{Op: "open", Path: p, Err: fs.ErrNotExist}
	}
	return &vfHandle{fs: f, ino: ino, name: filepath.Base(p)}, nil
}

type vfHandle struct {
	fs     *vfFS
	ino    *vfInode
	off    int64
	name   string
	closed bool
}

func (h *vfHandle) Stat() (fs.FileInfo, error) {
	h.fs.mu.Lock()
	defer h.fs.mu.Unlock()
	return vfStat{name: h.name, size: int64(len(h.ino.data))}, nil
}

func (h *vfHandle) Read(p []byte) (int, error) {
	h.fs.mu.Lock()
	defer h.fs.mu.Unlock()
	if h.closed {
		return 0, fs.ErrClosed
	}
	if h.off >= int64(len(h.ino.data)) {
		return 0, io.EOF // also when the offset lies beyond the end (OS semantics)
	}
	n := copy(p, h.ino.data[h.off:])
	h.off += int64(n)
	return n, nil
}

func (h *vfHandle) Seek(offset int64, whence int) (int64, error) {
	h.fs.mu.Lock()
	defer h.fs.mu.Unlock()
	var n int64
	switch whence {
	case io.SeekStart:
		n = offset
	case io.SeekCurrent:
		n = h.off + offset
	case io.SeekEnd:
		n = int64(len(h.ino.data)) + offset
	}
	if n < 0 {
		return 0, errors.New("negative position")
	}
	h.off = n // seeking past the end succeeds, as lseek(2) does
	return n, nil
}

func (h *vfHandle) Close() error { h.closed = true; return nil }

type vfStat struct {
	name string
	size int64
}

func (s vfStat) Name() string       { return s.name }
func (s vfStat) Size() int64        { return s.size }
func (s vfStat) Mode() fs.FileMode  { return 0o600 }
func (s vfStat) ModTime() time.Time { return time.Time{} }
func (s vfStat) IsDir() bool        { return false }
func (s vfStat) Sys() any           { return nil }

type vfDirEntry struct {
	name string
	dir  bool
}

func (e vfDirEntry) Name() string               { return e.name }
func (e vfDirEntry) IsDir() bool                { return e.dir }
func (e vfDirEntry) Type() fs.FileMode          { return 0 }
func (e vfDirEntry) Info() (fs.FileInfo, error) { return vfStat{name: e.name}, nil }

type vfWatcher struct{ ch chan fsnotify.Event }

func (w *vfWatcher) Events() <-chan fsnotify.Event { return w.ch }
func (w *vfWatcher) Close() error                  { return nil }

// --- the case ----------------------------------------------------------------

type vfOp struct {
	K     string   `json:"k"`               // append | partial | complete | rotate | truncate
	Lines []string `json:"lines,omitempty"` // append/complete: whole lines added (complete: first element finishes the partial line)
	Part  string   `json:"part,omitempty"`  // partial: bytes without newline
	Shift bool     `json:"shift,omitempty"` // rotate: shift the whole chain
	SameSize bool  `json:"same_size,omitempty"` // append right after a rotation: make the new file exactly as large as the old one was
}

type vfCase struct {
	Rotated map[string][]string `json:"rotated"`        // file name (audit.log.N) -> whole lines
	RotPart map[string]string   `json:"rot_partial"`    // unterminated tail of a rotated file
	Live    []string            `json:"live"`           // whole lines of audit.log at start
	LivePar string              `json:"live_partial"`   // unterminated tail of audit.log at start
	HasLive bool                `json:"has_live"`       // audit.log exists at start
	Others  []string            `json:"other_entries"`  // unrelated directory entries
	Ops     []vfOp              `json:"ops"`
}

const vfDir = "/var/log/audit"

func vfLine(rt *rapid.T, label string) string {
	switch rapid.IntRange(0, 9).Draw(rt, label+".k") {
	case 0:
		return ""
	case 1:
		// longer than the reader's buffer (whatever its size: 4 KiB today), with
		// position-dependent content so that a garbled or shifted line is visible
		n := rapid.SampledFrom([]int{4095, 4096, 4097, 8192, 3*4096 + 5, 4097, 8192, 65535, 65536, 65537, 2*65536 + 3}).Draw(rt, label+".big")
		c := string(rune('a' + rapid.IntRange(0, 25).Draw(rt, label+".c")))
		var sb strings.Builder
		for i := 0; sb.Len() < n; i++ {
			fmt.Fprintf(&sb, "%s%d.", c, i)
		}
		return sb.String()[:n]
	default:
		return fmt.Sprintf("type=X msg=audit(1.%03d:%d): %s", rapid.IntRange(0, 999).Draw(rt, label+".ms"), rapid.IntRange(1, 1<<20).Draw(rt, label+".seq"),
			rapid.StringMatching(`[a-z0-9 =]{0,30}`).Draw(rt, label+".body"))
	}
}

func vfLines(rt *rapid.T, label string, min, max int) []string {
	n := rapid.IntRange(min, max).Draw(rt, label+".n")
	out := make([]string, n)
	for i := range out {
		out[i] = vfLine(rt, label)
	}
	return out
}

func vfPartial(rt *rapid.T, label string) string {
	s := vfLine(rt, label)
	if s == "" {
		s = "p"
	}
	return s[:rapid.IntRange(1, len(s)).Draw(rt, label+".cut")]
}

func genVfCase(rt *rapid.T) vfCase {
	c := vfCase{Rotated: map[string][]string{}, RotPart: map[string]string{}}
	nRot := rapid.SampledFrom([]int{0, 1, 2, 3, 5, 9, 10, 11, 12, 15}).Draw(rt, "nrot")
	used := map[int]bool{}
	contiguous := rapid.Bool().Draw(rt, "contig")
	for i := 0; i < nRot; i++ {
		n := i + 1
		if !contiguous {
			n = rapid.IntRange(1, 999).Draw(rt, "rotN")
			if used[n] {
				continue
			}
		}
		used[n] = true
		name := fmt.Sprintf("audit.log.%d", n)
		c.Rotated[name] = vfLines(rt, "rot", 0, 3)
		if rapid.IntRange(0, 4).Draw(rt, "rotpart") == 0 {
			c.RotPart[name] = vfPartial(rt, "rotp")
		}
	}
	c.HasLive = nRot == 0 || rapid.IntRange(0, 5).Draw(rt, "haslive") > 0
	if c.HasLive {
		c.Live = vfLines(rt, "live", 0, 4)
		if rapid.IntRange(0, 3).Draw(rt, "livepart") == 0 {
			c.LivePar = vfPartial(rt, "livep")
		}
	}
	if rapid.Bool().Draw(rt, "others") {
		c.Others = []string{"README", "audit.lo", "other.log", "subdir/"}
	}
	nOps := rapid.IntRange(0, 10).Draw(rt, "nops")
	partial := c.LivePar != ""
	exists := c.HasLive
	for i := 0; i < nOps; i++ {
		k := rapid.IntRange(0, 9).Draw(rt, "opk")
		switch {
		case !exists:
			// the live file must exist before it can change: create it by rotation
			c.Ops = append(c.Ops, vfOp{K: "rotate", Shift: rapid.Bool().Draw(rt, "shift")})
			exists, partial = true, false
		case partial && k < 6:
			c.Ops = append(c.Ops, vfOp{K: "complete", Lines: append([]string{vfLine(rt, "rest")}, vfLines(rt, "more", 0, 2)...)})
			partial = false
		case k < 5 && !partial:
			op := vfOp{K: "append", Lines: vfLines(rt, "app", 1, 4)}
			if len(c.Ops) > 0 && c.Ops[len(c.Ops)-1].K == "rotate" && rapid.Bool().Draw(rt, "samesize") {
				op.SameSize = true // lines chosen at run time so that the new file reaches exactly the old file's size
			}
			c.Ops = append(c.Ops, op)
		case k < 7 && !partial:
			c.Ops = append(c.Ops, vfOp{K: "partial", Part: vfPartial(rt, "part")})
			partial = true
		case k < 9:
			c.Ops = append(c.Ops, vfOp{K: "rotate", Shift: rapid.Bool().Draw(rt, "shift")})
			partial = false
		default:
			c.Ops = append(c.Ops, vfOp{K: "truncate"})
			partial = false
		}
	}
	return c
}

func vfJoin(lines []string, partial string) []byte {
	var sb strings.Builder
	for _, l := range lines {
		sb.WriteString(l)
		sb.WriteByte('\n')
	}
	sb.WriteString(partial)
	return []byte(sb.String())
}

func vfRotNum(name string) int {
	n := 0
	fmt.Sscanf(strings.TrimPrefix(name, "audit.log."), "%d", &n)
	return n
}

const vfSync = "\x00verif-sync\x00"

func execVfCase(c vfCase) Outcome {
	fsys := &vfFS{files: map[string]*vfInode{}}
	var entries []os.DirEntry
	var rotNames []string
	for name := range c.Rotated {
		rotNames = append(rotNames, name)
	}
	// oldest first = highest rotation number first
	sort.Slice(rotNames, func(i, j int) bool { return vfRotNum(rotNames[i]) > vfRotNum(rotNames[j]) })
	var want []string
	for _, name := range rotNames {
		fsys.files[filepath.Join(vfDir, name)] = &vfInode{data: vfJoin(c.Rotated[name], c.RotPart[name])}
		entries = append(entries, vfDirEntry{name: name})
		want = append(want, c.Rotated[name]...)
	}
	if c.HasLive {
		fsys.files[filepath.Join(vfDir, "audit.log")] = &vfInode{data: vfJoin(c.Live, c.LivePar)}
		entries = append(entries, vfDirEntry{name: "audit.log"})
		want = append(want, c.Live...)
	}
	for _, o := range c.Others {
		if strings.HasSuffix(o, "/") {
			entries = append(entries, vfDirEntry{name: strings.TrimSuffix(o, "/"), dir: true})
		} else {
			entries = append(entries, vfDirEntry{name: o})
		}
	}
	// os.ReadDir returns entries sorted by file name
	sort.Slice(entries, func(i, j int) bool { return entries[i].Name() < entries[j].Name() })

	w := &vfWatcher{ch: make(chan fsnotify.Event)}
	ctx, cancel := context.WithCancel(context.Background())
	r := &LogDirReader{
		dirPath:       vfDir,
		initFileNames: sortLogNamesOldToNew(entries),
		watcher:       w,
		fs:            fsys,
		lines:         make(chan string),
		initFilesDone: make(chan struct{}),
		done:          make(chan struct{}),
	}
	var mu sync.Mutex
	var got []string
	synced := make(chan struct{})
	collDone := make(chan struct{})
	go func() {
		defer close(collDone)
		for {
			select {
			case l := <-r.lines:
				if l == vfSync {
					synced <- struct{}{}
					continue
				}
				mu.Lock()
				got = append(got, l)
				mu.Unlock()
			case <-ctx.Done():
				return
			}
		}
	}()
	go r.loop(ctx)
	defer func() {
		cancel()
		<-r.done
		<-collDone
	}()

	guard := func(what string, ch <-chan struct{}) {
		select {
		case <-ch:
		case <-r.done:
			// the reader stopped by itself
		case <-time.After(20 * time.Second):
			panic(&infraError{"dirreader harness: " + what + " not reached within 20s"})
		}
	}
	guard("initial files done", r.InitFilesDone())

	stopped := func() error {
		select {
		case <-r.done:
			return r.err
		default:
			return nil
		}
	}
	// event delivers one fsnotify event and returns once it was fully handled:
	// a sentinel event for another file name is accepted only when the loop is
	// back in its select, and a sentinel line flushes the collector.
	event := func(name string, op fsnotify.Op) error {
		for _, ev := range []fsnotify.Event{{Name: filepath.Join(vfDir, name), Op: op}, {Name: filepath.Join(vfDir, "verif-sentinel"), Op: fsnotify.Chmod}} {
			select {
			case w.ch <- ev:
			case <-r.done:
				return fmt.Errorf("reader stopped: %v", r.err)
			case <-time.After(20 * time.Second):
				panic(&infraError{"dirreader harness: event not accepted within 20s (retry back-off?)"})
			}
		}
		select {
		case r.lines <- vfSync:
			<-synced
		case <-time.After(20 * time.Second):
			panic(&infraError{"dirreader harness: collector sync failed"})
		}
		return nil
	}
	check := func(stage string) error {
		mu.Lock()
		defer mu.Unlock()
		if len(got) != len(want) {
			return fmt.Errorf("%s: %d lines delivered, want %d; first difference at %d: %s", stage, len(got), len(want), vfFirstDiff(got, want), vfDiffText(got, want))
		}
		for i := range want {
			if got[i] != want[i] {
				return fmt.Errorf("%s: line %d differs: %s", stage, i, vfDiffText(got, want))
			}
		}
		return nil
	}
	// flush the collector before the first comparison
	select {
	case r.lines <- vfSync:
		<-synced
	case <-time.After(20 * time.Second):
		panic(&infraError{"collector sync failed"})
	}
	if err := stopped(); err != nil {
		return fail("reader stopped while reading the initial files: %v", err)
	}
	if err := check(fmt.Sprintf("after the initial files %v", vfInitNames(rotNames, c.HasLive))); err != nil {
		return Outcome{Err: err}
	}

	live := filepath.Join(vfDir, "audit.log")
	pending := c.LivePar // unterminated bytes at the end of the live file
	nextRot := 1000
	lastRotatedSize := 0
	labels := []string{}
	ntRotThenAppend, sawRotOrTrunc, splitLine := false, false, false
	for i, op := range c.Ops {
		stage := fmt.Sprintf("after op %d (%s)", i, op.K)
		switch op.K {
		case "append", "complete":
			if op.SameSize && lastRotatedSize > 1 {
				// one line of exactly the rotated-out file's size
				op.Lines = []string{strings.Repeat("z", lastRotatedSize-1)}
			}
			fsys.mu.Lock()
			ino := fsys.files[live]
			ino.data = append(ino.data, vfJoin(op.Lines, "")...)
			fsys.mu.Unlock()
			for k, l := range op.Lines {
				if k == 0 && op.K == "complete" {
					want = append(want, pending+l)
					pending = ""
					splitLine = true
					continue
				}
				want = append(want, l)
			}
			if sawRotOrTrunc {
				ntRotThenAppend = true
			}
			if err := event("audit.log", fsnotify.Write); err != nil {
				return fail("%s: %v", stage, err)
			}
		case "partial":
			fsys.mu.Lock()
			ino := fsys.files[live]
			ino.data = append(ino.data, op.Part...)
			fsys.mu.Unlock()
			pending += op.Part
			if err := event("audit.log", fsnotify.Write); err != nil {
				return fail("%s: %v", stage, err)
			}
		case "rotate":
			fsys.mu.Lock()
			old, had := fsys.files[live]
			if had {
				lastRotatedSize = len(old.data)
				delete(fsys.files, live)
				nextRot++
				fsys.files[filepath.Join(vfDir, fmt.Sprintf("audit.log.%d", nextRot))] = old
			}
			fsys.mu.Unlock()
			if had {
				if op.Shift {
					_ = event("audit.log.2", fsnotify.Rename)
					_ = event("audit.log.3", fsnotify.Create)
				}
				if err := event("audit.log", fsnotify.Rename); err != nil {
					return fail("%s: %v", stage, err)
				}
				_ = event("audit.log.1", fsnotify.Create)
			}
			fsys.mu.Lock()
			fsys.files[live] = &vfInode{}
			fsys.mu.Unlock()
			if err := event("audit.log", fsnotify.Create); err != nil {
				return fail("%s: %v", stage, err)
			}
			_ = event("audit.log", fsnotify.Chmod)
			pending = ""
			sawRotOrTrunc = true
		case "truncate":
			fsys.mu.Lock()
			fsys.files[live].data = nil
			fsys.mu.Unlock()
			pending = ""
			sawRotOrTrunc = true
			if err := event("audit.log", fsnotify.Write); err != nil {
				return fail("%s: %v", stage, err)
			}
		}
		if err := stopped(); err != nil {
			return fail("%s: reader stopped: %v", stage, err)
		}
		if err := check(stage); err != nil {
			return Outcome{Err: err}
		}
	}
	nt := len(c.Rotated) >= 10 || ntRotThenAppend || splitLine
	if len(c.Rotated) >= 10 {
		labels = append(labels, "ten_or_more_rotated_files")
	}
	if ntRotThenAppend {
		labels = append(labels, "rotation_or_truncation_then_append")
	}
	if splitLine {
		labels = append(labels, "line_split_across_appends")
	}
	return Outcome{NT: nt, Labels: labels}
}

func vfInitNames(rot []string, live bool) []string {
	out := append([]string{}, rot...)
	if live {
		out = append(out, "audit.log")
	}
	return out
}

func vfFirstDiff(a, b []string) int {
	for i := 0; i < len(a) && i < len(b); i++ {
		if a[i] != b[i] {
			return i
		}
	}
	if len(a) < len(b) {
		return len(a)
	}
	return len(b)
}

func vfShort(s string) string {
	if len(s) > 40 {
		return fmt.Sprintf("%q...(%d bytes)", s[:40], len(s))
	}
	return fmt.Sprintf("%q", s)
}

func vfDiffText(got, want []string) string {
	i := vfFirstDiff(got, want)
	g, w := "<nothing>", "<nothing>"
	if i < len(got) {
		g = vfShort(got[i])
	}
	if i < len(want) {
		w = vfShort(want[i])
	}
	return fmt.Sprintf("at index %d got %s, want %s", i, g, w)
}

func TestVerifC20_History(t *testing.T) {
	RunProp(t, "c20.history", genVfCase, execVfCase)
}

// --- real directory, real inotify: the initial-files part ---------------------

type vfRealCase struct {
	Rotated map[string][]string `json:"rotated"`
	Live    []string            `json:"live"`
}

func execVfReal(c vfRealCase) Outcome {
	dir, err := os.MkdirTemp("", "vfdir")
	if err != nil {
		panic(&infraError{err.Error()})
	}
	defer os.RemoveAll(dir)
	var names []string
	for n := range c.Rotated {
		names = append(names, n)
	}
	sort.Slice(names, func(i, j int) bool { return vfRotNum(names[i]) > vfRotNum(names[j]) })
	var want []string
	for _, n := range names {
		if err := os.WriteFile(filepath.Join(dir, n), vfJoin(c.Rotated[n], ""), 0o600); err != nil {
			panic(&infraError{err.Error()})
		}
		want = append(want, c.Rotated[n]...)
	}
	if err := os.WriteFile(filepath.Join(dir, "audit.log"), vfJoin(c.Live, ""), 0o600); err != nil {
		panic(&infraError{err.Error()})
	}
	want = append(want, c.Live...)
	ctx, cancel := context.WithCancel(context.Background())
	defer cancel()
	r, err := StartLogDirReader(ctx, dir)
	if err != nil {
		panic(&infraError{"StartLogDirReader: " + err.Error()})
	}
	var got []string
	done := false
	for !done {
		select {
		case l := <-r.Lines():
			got = append(got, l)
		case <-r.InitFilesDone():
			done = true
		case <-time.After(20 * time.Second):
			panic(&infraError{"initial files not done within 20s"})
		}
	}
	cancel()
	_ = r.Wait()
	if len(got) != len(want) || vfFirstDiff(got, want) != len(want) {
		return fail("real directory %v + audit.log: %s (got %d lines, want %d)", names, vfDiffText(got, want), len(got), len(want))
	}
	return Outcome{NT: len(c.Rotated) >= 10}
}

func TestVerifC20_RealDir(t *testing.T) {
	RunProp(t, "c20.realdir", func(rt *rapid.T) vfRealCase {
		c := vfRealCase{Rotated: map[string][]string{}}
		n := rapid.SampledFrom([]int{0, 1, 3, 9, 10, 11, 14}).Draw(rt, "n")
		for i := 1; i <= n; i++ {
			c.Rotated[fmt.Sprintf("audit.log.%d", i)] = []string{fmt.Sprintf("line of rotation %d", i)}
		}
		c.Live = []string{"live line"}
		return c
	}, execVfReal)
}
